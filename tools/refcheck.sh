#!/bin/bash
# tools/refcheck.sh <name> <dir with seed/patch.diff> <check ids...>
# A behaviour-preserving refactoring (from an independent sub-agent) must NOT raise an alarm: applies the patch to a
# scratch copy of /repo, runs the test suite and the given checks (quick tier); expected exit code of every check: 0.
name=$1; wt=$2; shift 2; checks="$@"
out=/verif/refactors/$name; mkdir -p $out
cp $wt/seed/patch.diff $out/ 2>/dev/null; cp $wt/seed/notes.md $out/ 2>/dev/null
sc=/tmp/mut/ref_$name; rm -rf $sc; mkdir -p $sc; cp -r /repo/python $sc/python; mkdir -p $sc/docs; cp -r /repo/docs/spec $sc/docs/
( cd $sc && patch -p1 -s < $out/patch.diff ) || echo "PATCH FAILED"
( cd $sc && /venv/bin/python -m pytest -q -p no:cacheprovider python 2>&1 | tail -1 ) > $out/tests.txt; cat $out/tests.txt
: > $out/checks.txt
for c in $checks; do
  s=$(date +%s)
  SX_REPO=$sc timeout 3000 /verif/check $c > $out/check_$c.out 2>&1; rc=$?
  echo "$c exit=$rc wall=$(( $(date +%s)-s ))s $(grep -cE '^  (SKIPPED|DECLINED)' $out/check_$c.out) skipped-lines" | tee -a $out/checks.txt
  if [ $rc -ne 0 ]; then grep -E "^VIOLATION|INCONCLUSIVE|inconclusive|Unmodelled" $out/check_$c.out | head -5 | cut -c1-300; fi
done
rm -rf $sc
