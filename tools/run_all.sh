#!/bin/bash
# run every claimed check (quick by default) sequentially in /verif against /repo; refreshes evidence/*.json
tier=${1:-quick}
cd /verif
for c in $(python3 -c "import json; print(' '.join(x['property_id'] for x in json.load(open('MANIFEST.json'))['checks']))"); do
  s=$(date +%s); ./check $c --tier $tier > /tmp/all_$c.log 2>&1; rc=$?
  echo "$c exit=$rc wall=$(( $(date +%s) - s ))s $(tail -1 /tmp/all_$c.log | cut -c1-150)"
done
