#!/bin/bash
# tools/seedcheck.sh <seed name> <dir with seed/patch.diff, seed/demo.py> <check ids...>
# Confirms a seeded change on a scratch copy of /repo with the patch applied (tests pass, demo fails with / passes
# without) and runs the given checks against it.
name=$1; wt=$2; shift 2; checks="$@"
out=/verif/seeded/$name; mkdir -p $out
cp $wt/seed/patch.diff $wt/seed/demo.py $out/ 2>/dev/null; cp $wt/seed/notes.md $out/ 2>/dev/null
sc=/tmp/mut/seed_$name; rm -rf $sc; mkdir -p $sc; cp -r /repo/python $sc/python; mkdir -p $sc/docs; cp -r /repo/docs/spec $sc/docs/
( cd $sc && patch -p1 -s < $out/patch.diff ) || echo "PATCH FAILED"
rm -f $out/.checks
echo "== $name: test suite with the change"
( cd $sc && /venv/bin/python -m pytest -q -p no:cacheprovider python 2>&1 | tail -1 ) | tee $out/.tests
echo "== demo with the change (must fail)"
( cd $sc && PYTHONPATH=$sc/python timeout 120 /venv/bin/python $out/demo.py > $out/.demo_with 2>&1; echo "exit=$?" ) | tee $out/.demo_with_rc
echo "== demo on /repo (must pass)"
( cd /repo && PYTHONPATH=/repo/python timeout 120 /venv/bin/python $out/demo.py > $out/.demo_without 2>&1; echo "exit=$?" ) | tee $out/.demo_without_rc
for c in $checks; do
  [ -f /verif/harness/$c.py ] || continue
  SX_REPO=$sc timeout 3000 /verif/check $c > $out/.check_$c.out 2>&1; echo "== check $c against the change: exit=$?" | tee -a $out/.checks
  grep -A1 "^VIOLATION" $out/.check_$c.out | head -2 | cut -c1-300
done
rm -rf $sc
