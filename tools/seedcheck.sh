#!/bin/bash
# tools/seedcheck.sh <property id> <worktree dir> [more check ids...]
# confirms a seeded change (tests pass, demo fails with / passes without) and runs the checks against it
id=$1; wt=$2; shift 2; checks="$id $@"
out=/verif/seeded/$id; mkdir -p $out
cp $wt/seed/patch.diff $wt/seed/demo.py $out/ 2>/dev/null; cp $wt/seed/notes.md $out/ 2>/dev/null
echo "== $id: test suite with the change"
( cd $wt && /venv/bin/python -m pytest -q -p no:cacheprovider python 2>&1 | tail -1 ) | tee $out/.tests
echo "== demo with the change (must fail)"
( cd $wt && PYTHONPATH=$wt/python timeout 120 /venv/bin/python seed/demo.py > $out/.demo_with 2>&1; echo "exit=$?" ) | tee $out/.demo_with_rc
echo "== demo on /repo (must pass)"
( cd /repo && PYTHONPATH=/repo/python timeout 120 /venv/bin/python $wt/seed/demo.py > $out/.demo_without 2>&1; echo "exit=$?" ) | tee $out/.demo_without_rc
rm -rf /tmp/mut/seed_$id; mkdir -p /tmp/mut/seed_$id; cp -r $wt/python /tmp/mut/seed_$id/python; mkdir -p /tmp/mut/seed_$id/docs; cp -r $wt/docs/spec /tmp/mut/seed_$id/docs/ 2>/dev/null
for c in $checks; do [ -f /verif/harness/$c.py ] || continue;
  SX_REPO=/tmp/mut/seed_$id timeout 2400 /verif/check $c > $out/.check_$c.out 2>&1; echo "== check $c against the change: exit=$?" | tee -a $out/.checks
  grep -A1 "^VIOLATION" $out/.check_$c.out | head -2 | cut -c1-400
done
