#!/usr/bin/env python3
"""Regenerate MANIFEST.json from the table below (kept valid at all times)."""
import json
import os

V = os.path.dirname(os.path.dirname(os.path.abspath(__file__)))

# id -> (technique, level text, level note, design ref)
CLAIMED = {}
NOT_APPLICABLE = {}


def claim(pid, technique, text, note, ref):
    CLAIMED[pid] = (technique, text, note, ref)


exec(open(os.path.join(V, 'tools', 'claims.py')).read())

props = [json.loads(l) for l in open(os.path.join(V, 'properties.jsonl'))]
checks = []
for p in props:
    pid = p['id']
    if pid not in CLAIMED:
        continue
    tech, text, note, ref = CLAIMED[pid]
    checks.append({
        'property_id': pid,
        'quick_cmd': './check %s --tier quick' % pid,
        'thorough_cmd': './check %s --tier thorough' % pid,
        'evidence_file': '/verif/evidence/%s.json' % pid,
        'replay_cmd_template': './check replay {path}',
        'engine': 'sx',
        'level_claimed': {'category': 'model_checking', 'text': text, 'design_ref': ref},
        'level_note': note,
        'technique': tech,
    })
na = [{'property_id': p['id'], 'reason': NOT_APPLICABLE.get(p['id'], 'check not built yet (work in progress; see DESIGN.md section 4 for the planned harness)')}
      for p in props if p['id'] not in CLAIMED]
m = {
    'version': 1,
    'setup_cmd': './setup.sh',
    'hooks': {
        'guard': 'PYDIFFX_VERIF',
        'enable': 'none needed: instrumentation happens at import time inside the checker process (AST pass over /repo/python, DESIGN.md 2.2)',
        'baseline_off_cmd': 'cd /repo && /venv/bin/python -m pytest -ra -q -p no:cacheprovider --timeout=900 --continue-on-collection-errors',
        'source_commits': [],
        'add_only': True,
    },
    'engines': [{
        'name': 'sx', 'path': '/verif/sx',
        'serves_properties': sorted(CLAIMED),
        'kind_free_text': 'length-concrete symbolic shadow execution of the real pydiffx source (AST-instrumented import of /repo/python, z3 QF_BV+LIA, exhaustive DFS over solver-decided branches, 16 processes); counterexamples replayed on the uninstrumented package',
    }],
    'checks': checks,
    'not_applicable': na,
    'notes': 'exit 0 = held on everything explored within the stated bounds; exit 1 + VIOLATION line = replay-confirmed counterexample; exit 2 = inconclusive (unknown/unmodelled/bound hit/non-reproducing model), never reported as success. Known findings: /verif/known_findings.json.',
}
if not na:
    m.pop('not_applicable')
    m['not_applicable'] = []
json.dump(m, open(os.path.join(V, 'MANIFEST.json'), 'w'), indent=1)
print('claimed', sorted(CLAIMED), 'n/a', len(na))
