#!/usr/bin/env python3
"""tools/seedmeta.py <id> <breaks> "<needs>" -- write /verif/seeded/<id>/meta.json from the seedcheck outputs"""
import json, os, re, sys
sid, breaks, needs = sys.argv[1], sys.argv[2], sys.argv[3]
d = '/verif/seeded/%s' % sid
def rd(n):
    p = os.path.join(d, n)
    return open(p).read().strip() if os.path.exists(p) else ''
checks = {}
for line in rd('.checks').splitlines():
    m = re.search(r'check (\S+) against the change: exit=(\d+)', line)
    if m:
        out = rd('.check_%s.out' % m.group(1))
        v = re.findall(r'obligation=(\S+) label=(\S+) signature=(\S+)', out)
        checks[m.group(1)] = {'exit': int(m.group(2)), 'detected': m.group(2) == '1',
                              'first_violation': ' '.join(v[0]) if v else None}
meta = {
    'seed': sid, 'breaks_property': breaks, 'source': 'independent sub-agent given only the property text and a scratch worktree',
    'needs_to_manifest': needs,
    'confirmed': {'test_suite_with_change': rd('.tests'), 'demo_with_change': rd('.demo_with_rc'),
                  'demo_without_change': rd('.demo_without_rc')},
    'what_i_ran': ['cd <worktree> && /venv/bin/python -m pytest -q -p no:cacheprovider python',
                   'PYTHONPATH=<worktree>/python /venv/bin/python seed/demo.py   (with the change)',
                   'PYTHONPATH=/repo/python /venv/bin/python seed/demo.py        (without the change)',
                   'SX_REPO=<scratch copy of the changed tree> ./check <id> (quick tier) for each check listed'],
    'checks': checks,
}
json.dump(meta, open(os.path.join(d, 'meta.json'), 'w'), indent=1)
for f in os.listdir(d):
    if f.startswith('.'):
        os.remove(os.path.join(d, f))
print(json.dumps(meta['checks']))
