#!/usr/bin/env python3
"""tools/mutsweep.py [--seed N] [--max-survivors K] [--files a.py,b.py]

Mechanical mutation sweep (a complement to the hand-made seeds): single-point AST mutations of the pydiffx sources
(comparison flips, boundary shifts of integer constants, and/or swaps, dropped `not`, swapped boolean constants,
`is None` <-> `is not None`, slice-bound shifts).  Each mutant is a scratch copy of /repo/python under /tmp/mut; the
ones the repository's 176 tests still accept are run against the checks mapped to the mutated file (quick tier) until
one exits 1.  Output: one JSON line per test-surviving mutant in tools/mutsweep.out.jsonl:
  {file, line, op, before, after, killed_by | null, exits}
A survivor with killed_by = null is either an equivalent mutant or a hole -- to be triaged by hand."""
import ast
import copy
import json
import os
import random
import shutil
import subprocess
import sys
import time

REPO = '/repo'
FILES = {
    'reader.py': ['C11', 'C08', 'C03', 'C10', 'C07', 'C12', 'C17', 'C01', 'C04'],
    'writer.py': ['C02', 'C09', 'C01', 'C04', 'C05'],
    'utils/text.py': ['C16', 'C15', 'C02', 'C01', 'C03', 'C13'],
    'utils/unified_diffs.py': ['C14', 'C13'],
    'dom/objects.py': ['C19', 'C13', 'C18', 'C05', 'C06'],
    'dom/properties.py': ['C19', 'C05'],
    'dom/reader.py': ['C05', 'C06', 'C08', 'C18', 'C12'],
    'dom/writer.py': ['C05', 'C06', 'C18'],
    'integrations/pygments_lexer.py': ['C20'],
    'sections.py': ['C10', 'C09'],
    'options.py': ['C09', 'C19', 'C02'],
}
CMP = {ast.Lt: ast.LtE, ast.LtE: ast.Lt, ast.Gt: ast.GtE, ast.GtE: ast.Gt, ast.Eq: ast.NotEq, ast.NotEq: ast.Eq,
       ast.Is: ast.IsNot, ast.IsNot: ast.Is, ast.In: ast.NotIn, ast.NotIn: ast.In}


class Sites(ast.NodeVisitor):
    def __init__(self):
        self.sites = []
        self.in_doc = False

    def generic_visit(self, node):
        if isinstance(node, ast.Compare) and len(node.ops) == 1 and type(node.ops[0]) in CMP:
            self.sites.append((node, 'cmp'))
        if isinstance(node, ast.BoolOp):
            self.sites.append((node, 'boolop'))
        if isinstance(node, ast.UnaryOp) and isinstance(node.op, ast.Not):
            self.sites.append((node, 'not'))
        if isinstance(node, ast.Constant) and type(node.value) is int and 0 <= node.value <= 1000:
            self.sites.append((node, 'int+1'))
            if node.value > 0:
                self.sites.append((node, 'int-1'))
        if isinstance(node, ast.Constant) and type(node.value) is bool:
            self.sites.append((node, 'bool'))
        if isinstance(node, ast.BinOp) and isinstance(node.op, (ast.Add, ast.Sub)):
            self.sites.append((node, 'addsub'))
        super().generic_visit(node)


def mutate(tree, idx):
    t = copy.deepcopy(tree)
    v = Sites()
    v.visit(t)
    node, op = v.sites[idx]
    before = ast.unparse(node)
    if op == 'cmp':
        node.ops = [CMP[type(node.ops[0])]()]
    elif op == 'boolop':
        node.op = ast.Or() if isinstance(node.op, ast.And) else ast.And()
    elif op == 'not':
        # `not x` -> `not (not x)`: the truth value of x itself
        node.operand = ast.UnaryOp(op=ast.Not(), operand=node.operand)
    elif op == 'int+1':
        node.value += 1
    elif op == 'int-1':
        node.value -= 1
    elif op == 'bool':
        node.value = not node.value
    elif op == 'addsub':
        node.op = ast.Sub() if isinstance(node.op, ast.Add) else ast.Add()
    after = ast.unparse(node)
    return t, getattr(node, 'lineno', 0), op, before, after


def main():
    args = sys.argv[1:]
    seed = int(args[args.index('--seed') + 1]) if '--seed' in args else 1
    maxs = int(args[args.index('--max-survivors') + 1]) if '--max-survivors' in args else 40
    files = args[args.index('--files') + 1].split(',') if '--files' in args else list(FILES)
    budget = int(args[args.index('--minutes') + 1]) * 60 if '--minutes' in args else 7200
    rnd = random.Random(seed)
    cands = []
    trees = {}
    for f in files:
        src = open(os.path.join(REPO, 'python/pydiffx', f)).read()
        trees[f] = ast.parse(src)
        v = Sites()
        v.visit(trees[f])
        cands += [(f, i) for i in range(len(v.sites))]
    rnd.shuffle(cands)
    out = open('/verif/tools/mutsweep.out.jsonl', 'a')
    t0 = time.time()
    surv = tested = 0
    for f, i in cands:
        if surv >= maxs or time.time() - t0 > budget:
            break
        try:
            t, line, op, before, after = mutate(trees[f], i)
            code = ast.unparse(t)
            compile(code, f, 'exec')
        except Exception:
            continue
        d = '/tmp/mut/sweep'
        shutil.rmtree(d, ignore_errors=True)
        os.makedirs(d)
        shutil.copytree(os.path.join(REPO, 'python'), d + '/python')
        shutil.copytree(os.path.join(REPO, 'docs/spec'), d + '/docs/spec')
        open(os.path.join(d, 'python/pydiffx', f), 'w').write(code)
        tested += 1
        try:
            r = subprocess.run(['/venv/bin/python', '-m', 'pytest', '-q', '-x', '-p', 'no:cacheprovider', 'python'], cwd=d,
                               capture_output=True, text=True, timeout=90)
        except subprocess.TimeoutExpired:
            continue            # a hanging mutant: the test suite notices
        if r.returncode != 0:
            continue
        surv += 1
        rec = {'file': f, 'line': line, 'op': op, 'before': before[:120], 'after': after[:120], 'killed_by': None, 'exits': {}}
        for c in FILES[f]:
            try:
                rr = subprocess.run(['/verif/check', c], env=dict(os.environ, SX_REPO=d), capture_output=True, text=True, timeout=1500)
                rc = rr.returncode
            except subprocess.TimeoutExpired:
                rc = 'timeout'
            rec['exits'][c] = rc
            if rc == 1:
                rec['killed_by'] = c
                break
        out.write(json.dumps(rec) + '\n')
        out.flush()
        print('%d tested, survivor %d: %s:%d %s  %s -> %s   killed_by=%s %s' % (
            tested, surv, f, line, op, before[:50], after[:50], rec['killed_by'], rec['exits']), flush=True)
    shutil.rmtree('/tmp/mut/sweep', ignore_errors=True)
    print('done: %d mutants tested against the test suite, %d survived it' % (tested, surv))


if __name__ == '__main__':
    main()
