# claims table, exec'd by gen_manifest.py
BASE_NOTE = ('Trusted base: CPython, z3 5.1.0, the SX models of bytes/str methods, %-formatting, re (exact '
             'backtracking matcher over the real pattern), codecs and io.BytesIO, each validated concolically '
             'against the native behaviour at the start of every run. Holds only inside the bounds listed in '
             'the evidence file.')

claim('C16', 'bounded symbolic execution of the real split_lines (SX engine, z3 QF_BV), all paths, solver-decided',
      'For every byte string of 1..8 (quick) / 1..13 (thorough) fully symbolic bytes and each of the 10 newline '
      'sequences, every feasible path of the real split_lines (both modes) is executed symbolically and the four '
      'clauses of the property are discharged by z3 (unsat of path condition and negated property).',
      BASE_NOTE, 'DESIGN.md section 4, C16')

claim('C11', 'bounded symbolic execution of the real _read_header + regex-inclusion query against the spec grammar (NFA formula), z3',
      'The real DiffXReader._read_header runs on "#<id>:" + a fully symbolic option tail (0..7 bytes quick / 0..10 '
      'thorough, all 256 byte values, LF and CRLF files), on fully symbolic whole lines, and through the public '
      'iterator; on every feasible path z3 decides acceptance <=> membership in the specification grammar, the '
      'exception type, and that the reported options equal an independent split (integers converted).',
      BASE_NOTE + ' The specification grammar is written as an independent regex and compiled to a Boolean formula '
      'by the NFA builder (validated against re.fullmatch each run).', 'DESIGN.md section 4, C11')
