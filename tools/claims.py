# claims table, exec'd by gen_manifest.py
BASE_NOTE = ('Trusted base: CPython, z3 5.1.0, the SX models of bytes/str methods, %-formatting, re (exact '
             'backtracking matcher over the real pattern), codecs and io.BytesIO, each validated concolically '
             'against the native behaviour at the start of every run. Holds only inside the bounds listed in '
             'the evidence file.')

claim('C16', 'bounded symbolic execution of the real split_lines (SX engine, z3 QF_BV), all paths, solver-decided',
      'For every byte string of 1..8 (quick) / 1..13 (thorough) fully symbolic bytes and each of the 10 newline '
      'sequences, every feasible path of the real split_lines (both modes) is executed symbolically and the four '
      'clauses of the property are discharged by z3 (unsat of path condition and negated property).',
      BASE_NOTE, 'DESIGN.md section 4, C16')
