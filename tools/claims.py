# claims table, exec'd by gen_manifest.py
BASE_NOTE = ('Trusted base: CPython, z3 5.1.0, the SX models of bytes/str methods, %-formatting, re (exact '
             'backtracking matcher over the real pattern), codecs and io.BytesIO, each validated concolically '
             'against the native behaviour at the start of every run. Holds only inside the bounds listed in '
             'the evidence file.')

claim('C16', 'bounded symbolic execution of the real split_lines (SX engine, z3 QF_BV), all paths, solver-decided',
      'For every byte string of 1..8 (quick) / 1..13 (thorough) fully symbolic bytes and each of the 10 newline '
      'sequences, every feasible path of the real split_lines (both modes) is executed symbolically and the four '
      'clauses of the property are discharged by z3 (unsat of path condition and negated property).',
      BASE_NOTE, 'DESIGN.md section 4, C16')

claim('C11', 'bounded symbolic execution of the real _read_header + regex-inclusion query against the spec grammar (NFA formula), z3',
      'The real DiffXReader._read_header runs on "#<id>:" + a fully symbolic option tail (0..7 bytes quick / 0..10 '
      'thorough, all 256 byte values, LF and CRLF files), on fully symbolic whole lines, and through the public '
      'iterator; on every feasible path z3 decides acceptance <=> membership in the specification grammar, the '
      'exception type, and that the reported options equal an independent split (integers converted).',
      BASE_NOTE + ' The specification grammar is written as an independent regex and compiled to a Boolean formula '
      'by the NFA builder (validated against re.fullmatch each run).', 'DESIGN.md section 4, C11')

claim('C17', 'symbolic execution of the real _read_until on an interval-abstract stream (pure LIA: block size, stream length, positions are unbounded symbolic integers) + byte-level symbolic runs of the whole reader',
      'One symbolic run of the real DiffXReader._read_until covers every read-ahead block size k>=1, every stream '
      'length, start offset and delimiter position (all z3 Ints) for searches needing at most 4 (quick) / 9 (thorough) '
      'reads: returned chunks tile [pos0, d+1) exactly, the stream is left at d+1, eof flag correct. The whole reader '
      'is additionally run at byte level with forced block sizes and header paddings and symbolic diff content.',
      BASE_NOTE + ' Searches needing more reads than the bound are cut and counted in the evidence.',
      'DESIGN.md section 4, C17; 2.5')
