# claims table, exec'd by gen_manifest.py
BASE_NOTE = ('Trusted base: CPython, z3 5.1.0, the SX models of bytes/str methods, %-formatting, re (exact '
             'backtracking matcher over the real pattern), codecs, io.BytesIO and json (CPython\'s pure-Python decoder/encoder run '
             'under the same instrumentation), each validated concolically '
             'against the native behaviour at the start of every run. Holds only inside the bounds listed in '
             'the evidence file.')

claim('C16', 'bounded symbolic execution of the real split_lines (SX engine, z3 QF_BV), all paths, solver-decided',
      'For every byte string of 1..8 (quick) / 1..13 (thorough) fully symbolic bytes and each newline sequence, every feasible path of the real split_lines (both modes) is executed symbolically and the four '
      'clauses of the property are discharged by z3 (unsat of path condition and negated property); the newline set is '
      'every distinct encoding of LF / CRLF in any text codec of the platform (incl. EBCDIC, LF = "%"). Long inputs '
      '(up to several KiB, crossing 1024-byte boundaries) are covered by a fully symbolic window slid over every offset '
      'of a concrete context.',
      BASE_NOTE, 'DESIGN.md section 4, C16')

claim('C11', 'bounded symbolic execution of the real _read_header + regex-inclusion query against the spec grammar (NFA formula), z3',
      'The real DiffXReader._read_header runs on "#<id>:" + a fully symbolic option tail (0..7 bytes quick / 0..8 '
      'thorough, all 256 byte values, LF and CRLF files), on fully symbolic whole lines, and through the public '
      'iterator; on every feasible path z3 decides acceptance <=> membership in the specification grammar, the '
      'exception type, and that the reported options equal an independent split (integers converted). Headers of '
      '95..193 bytes (around the read-ahead block) carry a symbolic window at every position of the option part.',
      BASE_NOTE + ' The specification grammar is written as an independent regex and compiled to a Boolean formula '
      'by the NFA builder (validated against re.fullmatch each run).', 'DESIGN.md section 4, C11')

claim('C17', 'symbolic execution of the real _read_until on an interval-abstract stream (pure LIA: block size, stream length, positions are unbounded symbolic integers) + byte-level symbolic runs of the whole reader',
      'One symbolic run of the real DiffXReader._read_until covers every read-ahead block size k>=1, every stream '
      'length, start offset and delimiter position (all z3 Ints) for searches needing at most 4 (quick) / 12 (thorough) '
      'reads: returned chunks tile [pos0, d+1) exactly, the stream is left at d+1, eof flag correct. The whole reader '
      'is additionally run at byte level with forced block sizes and header paddings (the padded header is the first, '
      'the .change or the diff header right before the content; LF and CRLF header lines) and symbolic diff content, and on '
      'streams already positioned at an offset > 0, and on streams offering peek() with explored short / long results.',
      BASE_NOTE + ' Searches needing more reads than the bound are cut and counted in the evidence. The block-size knob '
      '(parameter or constant) is found by reflection on the current source; without one only the natural block size runs.',
      'DESIGN.md section 4, C17; 2.5')

claim('C14', 'differential bounded symbolic execution: real get_unified_diff_hunks vs reference state machine REF_HUNK; inductive step extracted from the current source run from an arbitrary symbolic state (z3 LIA + QF_BV)',
      'The loop body of get_unified_diff_hunks is lifted from the current source and executed from an arbitrary '
      'pre-state (all counters, start lines, first/last changed lines symbolic integers under the stated invariant) '
      'on one symbolic line; z3 shows the post-state, appended hunk entry and raised error equal the reference step, '
      'which covers any number of lines by induction. The whole function is additionally run against the reference '
      'on every sequence of 0..2 (quick) / 0..3 (thorough) symbolic template lines incl. the empty list, and on '
      'sequences of 2-3 hunks with symbolic bodies. Locals that are not loop state are poisoned in the step.',
      BASE_NOTE + ' Reference parser /verif/ref/hunks.py (validated against the repository test inputs each run).',
      'DESIGN.md section 4, C14; Appendix A')

claim('C01', 'bounded symbolic execution of the real DiffXWriter followed by the real DiffXReader on the produced symbolic bytes (SX engine, z3 QF_BV), no reference model on the path',
      'Real writer calls into a model stream, then the real reader over the produced bytes: one content section per '
      'run is fully symbolic (preamble text 1..3 code points quick / 1..4 thorough incl. BOM code points, NUL, CR/LF, '
      'surrogates; diff 1..4 / 1..5 bytes), for every own/inherited encoding of the catalogue, indent, line_endings, '
      'mimetype / diff type; plus container histories (up to 4 / 6 containers each declaring an encoding or not) with '
      'symbolic probe preambles, diffs following UTF-16/32 metadata, and metadata objects containing a symbolic string of '
      'arbitrary code points and a symbolic integer (equal as a JSON value). z3 decides record-by-record equality with norm().',
      BASE_NOTE + ' Metadata: concrete catalogue + one symbolic string/integer inside a concrete structure; longer histories by composition with C02/C03/C04.',
      'DESIGN.md section 4, C01')

claim('C10', 'z3 query over the finite transition relation read from the current source + bounded symbolic execution of the real reader on valid walks followed by a header with symbolic id bytes',
      'The transition table of the current source is compared with the specification relation by a solver query over '
      'symbolic (prev,next) in 24x24 ids; the real reader is run on every valid walk of the hierarchy (up to 4 sections '
      'quick / 6 thorough) followed by a header whose name bytes (3..8) and dot count (0..4) are symbolic: z3 decides '
      'accepted <=> allowed by the specification, record id/level, and that rejection is a DiffXParseError; each earlier '
      'header is also re-sent verbatim (and with one symbolic byte) after every walk.',
      BASE_NOTE, 'DESIGN.md section 4, C10; section 3 (REF_HIER)')

claim('C04', 'inductive-step symbolic execution: one real writer call / one extracted reader loop iteration from an arbitrary valid state (encoding stack chosen symbolically), symbolic content decoded by the codec model, z3',
      'Writer: one call from an arbitrary valid (_prev_section, _stack) state; reader: the loop body of iter_sections '
      'lifted from the current source and run from an arbitrary state satisfying Inv_r. z3 shows that the bytes '
      'written / text read use the own encoding else the nearest declaring ancestor (diff never inherits), and that '
      'the post-state satisfies the invariant again -- hence every nesting history, not only bounded ones. Encoding '
      'names with symbolic spelling are shown to reach the stack verbatim. Locals outside the loop state are poisoned; '
      'public-API histories with probes always run beside the step.',
      BASE_NOTE + ' If the named internals disappear the step is skipped (recorded) and C01 history bounds apply.',
      'DESIGN.md section 4, C04; Appendix A')

claim('C02', 'differential bounded symbolic execution: real DiffXWriter vs independent serializer REF_WRITE (written from the specification), byte-for-byte equality decided by z3',
      'For every own/inherited encoding of the catalogue, indent, line_endings, mimetype / diff type and each section id, '
      'the real writer runs on fully symbolic preamble text (1..3 quick / 1..4 thorough code points) or diff bytes '
      '(1..4 / 1..5) and z3 shows the output equals REF_WRITE byte for byte; header grammar, sorted options and '
      'length framing are additionally checked without the reference. Metadata with a symbolic string / integer is compared '
      'with the canonical JSON serialisation of the specification.',
      BASE_NOTE + ' REF_WRITE is /verif/ref/spec.py; canonical JSON text from json.dumps.', 'DESIGN.md section 4, C02; section 3')

claim('C03', 'differential bounded symbolic execution: real DiffXReader vs REF_READ on files from an independent spec-derived generator with symbolic section content; single-defect catalogue',
      'Files are produced by a generator written from the specification (valid walks, permuted option order, optional '
      'options absent, blank lines, LF/CRLF header lines); one preamble / diff section per run carries symbolic raw '
      'bytes (0..3 quick / 0..5 thorough, optionally plus the section newline) under every own/inherited encoding, '
      'indent and line_endings choice. z3 decides that the reader accepts exactly when the specification reading does '
      'and that id, level, logical line, options and content equal it. Each single-defect mutation of the catalogue '
      'must be rejected with a DiffXParseError whose line lies inside the offending section. Metadata whose JSON text has a '
      'window of symbolic raw bytes is accepted exactly when it decodes to valid JSON, with the same value.',
      BASE_NOTE + ' REF_READ is /verif/ref/spec.py.', 'DESIGN.md section 4, C03; section 3')

claim('C08', 'bounded symbolic execution of the real reader and DOM loader on concrete prefixes (every reader state / position inside a section) + fully symbolic byte tails; z3 decides exception type, line bound, message agreement',
      'Inputs are P+S with P from a catalogue of 29 accepted prefixes and S up to 4 (quick) / 7 (thorough) fully '
      'symbolic bytes, plus fully symbolic buffers up to 7 / 10 bytes: every feasible path terminates and either '
      'completes or raises DiffXParseError with 0 <= linenum <= lines(input) and a message agreeing with its '
      'attributes; DiffX.from_stream on such inputs (and on headers whose option names are attribute names of the '
      'object-model classes, by reflection) raises only BaseDiffXError subclasses and always closes the stream. Valid '
      'multi-section files (UTF-8, UTF-16 with CRLF) are corrupted by a symbolic window of 1..2 bytes at every offset. '
      'Resource-shaped inputs: JSON nested up to 200000 levels, option values of 4300+ digits.',
      BASE_NOTE + ' json.loads on symbolic text: CPython\'s pure-Python decoder under instrumentation (exact); a catalogue '
      'fallback would be flagged in the evidence.', 'DESIGN.md section 4, C08; II.5c')

claim('C07', 'bounded symbolic execution of the real reader on every truncation F[:p] of files with symbolic content, records compared with the intact file\'s records by z3; length perturbations',
      'For three (thorough: five, incl. CRLF header lines and a change-level preamble) skeleton files with a symbolic '
      'content section (1..3 bytes quick / 1..8 thorough, ending in LF) and every cut '
      'point 0..len(F), the real reader is run on the intact file and on the truncated file in the same symbolic '
      'path (container headers carry options, so that a cut header may still look like a header); z3 decides that the '
      'records of the truncated file are a prefix of the intact ones (ids, options, content), '
      'followed by end or DiffXParseError. Lengths exceeding the data present, negative, non-numeric and int()-exotic '
      'tokens likewise; multi-line text in UTF-8/16/32 with a symbolic character after a newline is cut at every byte '
      '(also inside a character). One known finding (short read accepted) is listed in known_findings.json.',
      BASE_NOTE, 'DESIGN.md section 4, C07; section 5 (D4)')

claim('C12', 'bounded symbolic execution of the real reader on base files and on the same files with unknown options whose key and value bytes are symbolic, inserted at every position; z3 decides record equality modulo the added keys',
      'Into every header of three base files (all nine ids; utf-8, utf-16 with CRLF headers, no encoding) one unknown '
      'option with symbolic key and value (1..2 bytes each quick / 1..3 thorough, constrained to the key/value grammar and '
      'to differ from every option the library reads) is inserted at every position, and two options into selected '
      'headers; keys that differ from a known option name only in case or in one symbolic byte are inserted likewise; '
      'z3 shows every record equals the base run except for the added keys, reported verbatim / as integers.',
      BASE_NOTE, 'DESIGN.md section 4, C12')

claim('C09', 'inductive-step symbolic execution of one real writer call from an arbitrary valid writer state, with symbolic text and codec-name characters; stream operation log and state snapshot compared; z3',
      'One call out of 26 valid/invalid variants (wrong type, empty content, bad option values, unknown codec, codec '
      'name with symbolic characters, text with symbolic code points, unserialisable metadata) from every valid writer '
      'state: accepted <=> the specification hierarchy allows the section; if the call raises, the stream log is '
      'unchanged and (_stack, _prev_section) are deep-equal; if accepted, only appending writes occurred and the '
      'invariant holds again (induction over histories). Constructor and all public-API call sequences of length 4 / 6; '
      'public-API twin runs: after any rejected call the output equals that of a writer never given that call.',
      BASE_NOTE + ' OS-level write failures are outside the claim.', 'DESIGN.md section 4, C09; Appendix A')

claim('C13', 'bounded symbolic execution of the real generate_stats: diffs assembled from hunk shapes with symbolic payload/garbage bytes (QF_BV) and aggregation over symbolic integer figures (LIA), z3',
      'File level: diffs of 1-2 hunks from a shape catalogue with symbolic payloads and garbage lines, unix/dos, explicit '
      'or detected line_endings, diff encoding unset/utf-8/utf-16-le/utf-16, with or without pre-existing stats: counts '
      'equal the ground truth, custom keys kept, second call changes nothing; binary/absent/unparsable diffs untouched. '
      'Aggregation: per-file figures are unconstrained z3 integers in trees up to 2x2 (quick) / 3x3 (thorough); sums and '
      'counts are shown for all integers, custom keys preserved, idempotent. Regeneration after the diff was replaced '
      '(other newline convention / encoding) gives the figures of the new diff.',
      BASE_NOTE, 'DESIGN.md section 4, C13')

claim('C19', 'bounded symbolic execution of the real descriptors and __eq__/__ne__ with symbolic candidate values and independently symbolic tree fields; z3 decides stored<=>valid and ==<=>field-wise equality',
      'Every typed attribute (own and forwarded) of every section class is assigned candidate values of every kind '
      '(symbolic str of several lengths, each documented choice, symbolic int, bool, bytes, None, dict, list): stored '
      '=> declared type and allowed choice, readable back; raised => whole-tree snapshot unchanged; valid values never '
      'rejected. Two trees (0..1 changes x 0..1 files quick / 0..2 thorough) with independently present/symbolic fields: '
      'A==B <=> same shape and field-wise equal, != its negation, equal trees serialise identically; any single-field '
      'perturbation (new / changed / removed option, changed content) makes trees unequal.',
      BASE_NOTE, 'DESIGN.md section 4, C19')

claim('C18', 'bounded symbolic execution over call histories: menu operations with symbolic values on several live trees through the real object model, reader and writer; aliasing by object-graph identity, value leaks decided by z3',
      'After a set-up with one constructed tree and two trees parsed by one shared DiffXDOMReader (plus one shared '
      'DiffXDOMWriter), every sequence of 2 (quick) / 3 (thorough) operations from a 17-entry menu is executed with '
      'symbolic values: mutable objects reachable from distinct trees, class-level defaults and the shared reader/writer '
      'are pairwise disjoint; no other tree\'s snapshot can change (z3); to_bytes / == / repr leave the tree unchanged and '
      'to_bytes is repeatable.',
      BASE_NOTE + ' Aliasing does not depend on data; the history length is the bound of the claim.', 'DESIGN.md section 4, C18')

claim('C05', 'bounded symbolic execution of the full pipeline tree -> DiffXDOMWriter -> DiffXWriter -> bytes -> DiffXReader -> DiffXDOMReader -> tree with symbolic section content; equality with the documented normalisation and with REF_WRITE decided by z3',
      'Trees built through the public constructors/typed attributes (one change, 1-2 files; one section per run with '
      'symbolic content of 1..3 code points / 1..4 bytes quick, 1..4 / 1..5 thorough; its options enumerated; the '
      'surrounding encodings and present/absent sections from a profile catalogue) are serialised and parsed back by the '
      'real code: same shape and, section by section, options and content equal to the documented normalisation; the '
      'bytes equal REF_WRITE over the calls the tree implies (file metadata with a symbolic string / integer included). '
      'With a recording writer_cls the call sequence equals '
      'REF_DOM_CALLS and the tree is not modified.',
      BASE_NOTE, 'DESIGN.md section 4, C05')

claim('C06', 'bounded symbolic execution of parse -> serialise (-> parse -> serialise) through the real object model on canonical files (writer outputs with symbolic content) and on foreign-style generated files',
      'Canonical: for every b produced by the real writer from the symbolic trees of C05, from_bytes(b).to_bytes() == b '
      '(z3, byte for byte). Foreign: files from the specification-derived generator (permuted options, blank lines, '
      'CRLF headers) with a symbolic preamble / diff section: when the object model accepts the file, re-serialising '
      'succeeds, the section content is carried, and the result is a fixed point of parse+serialise.',
      BASE_NOTE, 'DESIGN.md section 4, C06')

claim('C15', 'bounded symbolic execution with a *symbolic codec-name spelling*: instrumented platform encodings.normalize_encoding + alias table decide what the name resolves to, then the real newline/BOM helpers, writer and reader run with that name; z3',
      'The encoding name is a symbolic string of 1..6 (quick) / 1..8 (thorough) characters over [A-Za-z0-9_.-] (not '
      'int-like). On every path the platform resolution (instrumented normalize_encoding, alias table, codec modules) '
      'ends in a concrete codec or LookupError; for every stateless text codec reached, get_newline_for_type / strip_bom / '
      'guess_line_endings must return the BOM-free LF/CRLF of that codec, and writer+reader with encoding=<spelling> must '
      'give the same text and content bytes as under the canonical spelling (symbolic text for the UTF/latin-1/ascii '
      'families, concrete text through the real codec for all others). Every alias the platform knows for the BOM-relevant '
      'codecs is additionally run with per-character symbolic case and symbolic separators, whatever its length. The '
      'round trip is absolute (text read == text written, multi-line texts), not only relative between spellings.',
      BASE_NOTE + ' Stateful / non-text codecs are outside the property.', 'DESIGN.md section 4, C15')

claim('C20', 'bounded symbolic execution of the DiffX lexer through the real Pygments RegexLexer driver (loaded under the same instrumentation; rule regexes executed by the exact backtracking regex model), z3 decides losslessness',
      'The real rule table and flags of DiffXLexer run through the real pygments.lexer driver on fully symbolic text of '
      '0..7 (quick) / 0..9 (thorough) code points, on every rule-header literal and two-section prefix followed by '
      '0..4 / 0..6 symbolic code points, and on UTF-8 files produced by the real writer with a symbolic content section '
      'without "#.": every path terminates, the concatenated token values equal the input, and for writer files no '
      'Error token occurs and the Name.Tag header tokens are the file\'s headers in order; a realistic diff with '
      'symbolic characters ending one of its lines likewise. Termination in practice: on writer files with 24 (thorough up '
      'to 48) characters of prose + 3-4 symbolic characters the number of steps of the backtracking search, counted in the '
      'node-for-node regex model, stays within 8 n^2 + 5000 (replay: native lexer on a longer run under 10 s).',
      BASE_NOTE + ' JsonLexer is an identity stub, DiffLexer a line-based stub (Error tokens for a chunk without final newline) '
      'in symbolic runs; both real in replays.', 'DESIGN.md section 4, C20')
