#!/usr/bin/env python3
"""tools/mut.py <name> <file-relative-to-python/pydiffx> <old> <new> -- scratch copy of /repo/python with one textual edit"""
import os, shutil, sys
name, rel, old, new = sys.argv[1:5]
d = '/tmp/mut/%s' % name
shutil.rmtree(d, ignore_errors=True)
os.makedirs(d)
shutil.copytree('/repo/python', d + '/python')
p = os.path.join(d, 'python/pydiffx', rel)
s = open(p).read()
assert s.count(old) >= 1, 'pattern not found'
s = s.replace(old, new, 1)
open(p, 'w').write(s)
print(d)
