(set-logic ALL)
; benchmark generated from python API
(set-info :status unknown)
(declare-fun t_0 () (_ BitVec 32))
(declare-fun t_1 () (_ BitVec 32))
(assert
 (bvule t_0 (_ bv1114111 32)))
(assert
 (bvule t_1 (_ bv1114111 32)))
(assert
 (let (($x1286 (= t_0 (_ bv10 32))))
 (not $x1286)))
(assert
 (let (($x1645 (= t_1 (_ bv10 32))))
 (not $x1645)))
(assert
 (not (or (not (= ((_ extract 31 8) t_0) (_ bv0 24))) (bvule (_ bv128 8) ((_ extract 7 0) t_0)))))
(assert
 (not (or (not (= ((_ extract 31 8) t_1) (_ bv0 24))) (bvule (_ bv128 8) ((_ extract 7 0) t_1)))))
(assert
 (let ((?x434 ((_ extract 7 0) t_1)))
 (let (($x1677 (= ?x434 (_ bv10 8))))
 (not $x1677))))
(assert
 (let ((?x1143 ((_ extract 7 0) t_0)))
 (let (($x237 (= ?x1143 (_ bv10 8))))
 (not $x237))))
(assert
 (let ((?x434 ((_ extract 7 0) t_1)))
 (let (($x1677 (= ?x434 (_ bv10 8))))
 (not $x1677))))
(assert
 (let ((?x1163 ((_ extract 7 7) t_1)))
 (let (($x555 (= ?x1163 (_ bv0 1))))
 (let ((?x28 ((_ extract 7 7) t_0)))
 (let (($x2024 (= ?x28 (_ bv0 1))))
 (and $x2024 $x555))))))
(assert
 (let (($x1286 (= t_0 (_ bv10 32))))
 (not $x1286)))
(assert
 (let (($x1645 (= t_1 (_ bv10 32))))
 (not $x1645)))
(assert
 (let (($x1645 (= t_1 (_ bv10 32))))
 (not $x1645)))
(assert
 (let (($x387 (and (= ((_ zero_extend 24) ((_ extract 7 0) t_0)) t_0) (= ((_ zero_extend 24) ((_ extract 7 0) t_1)) t_1))))
(not $x387)))
(check-sat)
