(set-logic ALL)
; benchmark generated from python API
(set-info :status unknown)
(declare-fun t_0 () (_ BitVec 32))
(declare-fun t_1 () (_ BitVec 32))
(assert
 (bvule t_0 (_ bv1114111 32)))
(assert
 (bvule t_1 (_ bv1114111 32)))
(assert
 (let (($x420 (= t_0 (_ bv10 32))))
 (not $x420)))
(assert
 (let (($x588 (= t_1 (_ bv10 32))))
 (not $x588)))
(assert
 (not (or (not (= ((_ extract 31 8) t_0) (_ bv0 24))) (bvule (_ bv128 8) ((_ extract 7 0) t_0)))))
(assert
 (let ((?x1239 ((_ extract 7 0) t_1)))
 (let (($x1269 (bvule (_ bv128 8) ?x1239)))
 (let (($x1062 (or (not (= ((_ extract 31 8) t_1) (_ bv0 24))) $x1269)))
 (not (not $x1062))))))
(assert
 (let ((?x788 ((_ extract 11 0) t_1)))
 (let (($x1444 (bvule (_ bv2048 12) ?x788)))
 (let (($x1623 (or (not (= ((_ extract 31 12) t_1) (_ bv0 20))) $x1444)))
 (not (not $x1623))))))
(assert
 (let ((?x979 ((_ extract 16 0) t_1)))
 (let (($x387 (bvule (_ bv65536 17) ?x979)))
 (let (($x2010 (or (not (= ((_ extract 31 17) t_1) (_ bv0 15))) $x387)))
 (not (not $x2010))))))
(assert
 (let ((?x1873 ((_ extract 7 0) t_0)))
 (let (($x1012 (= ?x1873 (_ bv10 8))))
 (not $x1012))))
(assert
 (let ((?x1873 ((_ extract 7 0) t_0)))
 (let (($x1012 (= ?x1873 (_ bv10 8))))
 (not $x1012))))
(assert
 (let ((?x1053 ((_ extract 7 7) t_0)))
 (= ?x1053 (_ bv0 1))))
(assert
 (let ((?x613 ((_ extract 20 18) t_1)))
 (let ((?x163 (concat (_ bv30 5) ?x613)))
 (let (($x516 (bvule ?x163 (_ bv223 8))))
 (let (($x1426 (bvule (_ bv194 8) ?x163)))
 (not (and $x1426 $x516)))))))
(assert
 (let ((?x613 ((_ extract 20 18) t_1)))
 (let ((?x163 (concat (_ bv30 5) ?x613)))
 (let (($x1661 (bvule ?x163 (_ bv239 8))))
 (let (($x1041 (bvule (_ bv224 8) ?x163)))
 (not (and $x1041 $x1661)))))))
(assert
 (let ((?x613 ((_ extract 20 18) t_1)))
 (let ((?x163 (concat (_ bv30 5) ?x613)))
 (let (($x217 (bvule ?x163 (_ bv244 8))))
 (let (($x710 (bvule (_ bv240 8) ?x163)))
 (and $x710 $x217))))))
(assert
 (let ((?x1704 ((_ extract 5 0) t_1)))
 (let ((?x885 (concat (_ bv2 2) ?x1704)))
 (let (($x895 (bvule ?x885 (_ bv191 8))))
 (let (($x1203 (bvule (_ bv128 8) ?x885)))
 (let ((?x1331 ((_ extract 11 6) t_1)))
 (let ((?x1884 (concat (_ bv2 2) ?x1331)))
 (let (($x286 (bvule ?x1884 (_ bv191 8))))
 (let (($x83 (bvule (_ bv128 8) ?x1884)))
 (let ((?x613 ((_ extract 20 18) t_1)))
 (let (($x60 (= ?x613 (_ bv4 3))))
 (let ((?x321 (ite $x60 (_ bv143 8) (_ bv191 8))))
 (let ((?x820 ((_ extract 17 12) t_1)))
 (let ((?x1270 (concat (_ bv2 2) ?x820)))
 (let (($x961 (bvule ?x1270 ?x321)))
 (let (($x383 (= ?x613 (_ bv0 3))))
 (let ((?x1966 (ite $x383 (_ bv144 8) (_ bv128 8))))
 (let (($x1116 (bvule ?x1966 ?x1270)))
 (and $x1116 $x961 $x83 $x286 $x1203 $x895)))))))))))))))))))
(assert
 (let (($x420 (= t_0 (_ bv10 32))))
 (not $x420)))
(assert
 (let (($x588 (= t_1 (_ bv10 32))))
 (not $x588)))
(assert
 (let (($x588 (= t_1 (_ bv10 32))))
 (not $x588)))
(assert
 (let ((?x28 ((_ extract 20 0) t_1)))
(let ((?x2030 (concat (_ bv0 11) ?x28)))
(let (($x1985 (= ?x2030 t_1)))
(let (($x391 (and (= ((_ zero_extend 24) ((_ extract 7 0) t_0)) t_0) $x1985)))
(not $x391))))))
(check-sat)
