(set-logic ALL)
; benchmark generated from python API
(set-info :status unknown)
(declare-fun t_0 () (_ BitVec 32))
(declare-fun t_1 () (_ BitVec 32))
(assert
 (bvule t_0 (_ bv1114111 32)))
(assert
 (bvule t_1 (_ bv1114111 32)))
(assert
 (let (($x678 (= t_0 (_ bv10 32))))
 (not $x678)))
(assert
 (= t_1 (_ bv10 32)))
(assert
 (let (($x464 (= t_1 (_ bv10 32))))
 (let (($x381 (= t_0 (_ bv13 32))))
 (and $x381 $x464))))
(assert
 (not (or (not (= ((_ extract 31 9) t_0) (_ bv0 23))) (bvule (_ bv256 9) ((_ extract 8 0) t_0)))))
(assert
 (not (or (not (= ((_ extract 31 9) t_1) (_ bv0 23))) (bvule (_ bv256 9) ((_ extract 8 0) t_1)))))
(assert
 (let ((?x1074 ((_ extract 7 0) t_1)))
 (let (($x982 (= ?x1074 (_ bv10 8))))
 (let ((?x1038 ((_ extract 7 0) t_0)))
 (let (($x67 (= ?x1038 (_ bv13 8))))
 (and $x67 $x982))))))
(assert
 (let ((?x1074 ((_ extract 7 0) t_1)))
 (let (($x982 (= ?x1074 (_ bv10 8))))
 (let ((?x1038 ((_ extract 7 0) t_0)))
 (let (($x67 (= ?x1038 (_ bv13 8))))
 (and $x67 $x982))))))
(assert
 (let ((?x1074 ((_ extract 7 0) t_1)))
 (let (($x982 (= ?x1074 (_ bv10 8))))
 (let ((?x1038 ((_ extract 7 0) t_0)))
 (let (($x67 (= ?x1038 (_ bv13 8))))
 (and $x67 $x982))))))
(assert
 (let (($x678 (= t_0 (_ bv10 32))))
 (not $x678)))
(assert
 (= t_1 (_ bv10 32)))
(assert
 (let (($x464 (= t_1 (_ bv10 32))))
 (let (($x381 (= t_0 (_ bv13 32))))
 (and $x381 $x464))))
(assert
 (let (($x464 (= t_1 (_ bv10 32))))
 (let (($x381 (= t_0 (_ bv13 32))))
 (and $x381 $x464))))
(assert
 (let (($x2005 (and (= (_ bv13 32) t_0) (= (_ bv10 32) t_1))))
(not $x2005)))
(check-sat)
