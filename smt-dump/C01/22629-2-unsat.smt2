(set-logic ALL)
; benchmark generated from python API
(set-info :status unknown)
(declare-fun t_0 () (_ BitVec 32))
(assert
 (bvule t_0 (_ bv1114111 32)))
(assert
 (let (($x1406 (= t_0 (_ bv10 32))))
 (not $x1406)))
(assert
 (not (or (not (= ((_ extract 31 8) t_0) (_ bv0 24))) (bvule (_ bv128 8) ((_ extract 7 0) t_0)))))
(assert
 (let ((?x589 ((_ extract 7 0) t_0)))
 (let (($x1015 (= ?x589 (_ bv10 8))))
 (not $x1015))))
(assert
 (let ((?x589 ((_ extract 7 0) t_0)))
 (let (($x1015 (= ?x589 (_ bv10 8))))
 (not $x1015))))
(assert
 (let ((?x589 ((_ extract 7 0) t_0)))
 (let (($x1015 (= ?x589 (_ bv10 8))))
 (not $x1015))))
(assert
 (let ((?x416 ((_ extract 7 7) t_0)))
 (= ?x416 (_ bv0 1))))
(assert
 (let (($x1406 (= t_0 (_ bv10 32))))
 (not $x1406)))
(assert
 (let (($x1406 (= t_0 (_ bv10 32))))
 (not $x1406)))
(assert
 (let ((?x589 ((_ extract 7 0) t_0)))
(let ((?x1032 ((_ zero_extend 24) ?x589)))
(let (($x1741 (= ?x1032 t_0)))
(not $x1741)))))
(check-sat)
