(set-logic ALL)
; benchmark generated from python API
(set-info :status unknown)
(declare-fun t_0 () (_ BitVec 32))
(declare-fun t_1 () (_ BitVec 32))
(assert
 (bvule t_0 (_ bv1114111 32)))
(assert
 (bvule t_1 (_ bv1114111 32)))
(assert
 (not (or (not (= ((_ extract 31 17) t_0) (_ bv0 15))) (bvule (_ bv65536 17) ((_ extract 16 0) t_0)))))
(assert
 (let ((?x1442 ((_ extract 15 0) t_0)))
 (let (($x636 (bvule ?x1442 (_ bv57343 16))))
 (let ((?x634 ((_ extract 31 16) t_0)))
 (let (($x267 (= ?x634 (_ bv0 16))))
 (let (($x608 (bvule (_ bv55296 16) ?x1442)))
 (let (($x1701 (not $x267)))
 (let (($x1952 (or $x1701 $x608)))
 (not (and $x1952 $x267 $x636))))))))))
(assert
 (let ((?x360 ((_ extract 16 0) t_1)))
 (let (($x1733 (bvule (_ bv65536 17) ?x360)))
 (let (($x1937 (or (not (= ((_ extract 31 17) t_1) (_ bv0 15))) $x1733)))
 (not (not $x1937))))))
(assert
 (not (and (= ((_ extract 7 0) t_0) (_ bv10 8)) (= ((_ extract 15 8) t_0) (_ bv0 8)))))
(assert
 (let ((?x845 (bvadd (_ bv4294901760 32) t_1)))
 (let ((?x936 ((_ extract 17 10) ?x845)))
 (let (($x884 (= ?x936 (_ bv0 8))))
 (let ((?x1774 ((_ extract 15 8) t_0)))
 (let (($x756 (= ?x1774 (_ bv10 8))))
 (and $x756 $x884)))))))
(assert
 (not (and (bvule (_ bv55296 16) ((_ extract 15 0) t_0)) (bvule ((_ extract 15 0) t_0) (_ bv56319 16)))))
(assert
 (not (and (bvule (_ bv56320 16) ((_ extract 15 0) t_0)) (bvule ((_ extract 15 0) t_0) (_ bv57343 16)))))
(assert
 (let ((?x845 (bvadd (_ bv4294901760 32) t_1)))
 (let ((?x219 ((_ extract 20 10) ?x845)))
 (let ((?x1478 ((_ extract 23 23) ?x845)))
 (let ((?x2001 (concat (_ bv3 2) ?x1478 (_ bv3 2) ?x219)))
 (let (($x811 (bvule ?x2001 (_ bv56319 16))))
 (let (($x329 (bvule (_ bv55296 16) ?x2001)))
 (and $x329 $x811))))))))
(assert
 (let ((?x796 ((_ extract 9 0) t_1)))
 (let ((?x999 (concat (_ bv55 6) ?x796)))
 (let (($x1955 (bvule ?x999 (_ bv57343 16))))
 (let (($x1872 (bvule (_ bv56320 16) ?x999)))
 (and $x1872 $x1955))))))
(assert
 (let (($x835 (= t_1 (_ bv10 32))))
 (not $x835)))
(assert
 (let ((?x796 ((_ extract 9 0) t_1)))
(let ((?x504 (concat (_ bv0 12) ((_ extract 19 10) (bvadd (_ bv4294901760 32) t_1)) ?x796)))
(let ((?x1516 (bvadd (_ bv65536 32) ?x504)))
(let ((?x1442 ((_ extract 15 0) t_0)))
(let ((?x1750 (concat (_ bv0 16) ?x1442)))
(let (($x1949 (= ?x1750 t_0)))
(let (($x889 (and $x1949 (= ?x1516 t_1))))
(not $x889)))))))))
(check-sat)
