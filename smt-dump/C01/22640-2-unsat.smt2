(set-logic ALL)
; benchmark generated from python API
(set-info :status unknown)
(declare-fun t_0 () (_ BitVec 32))
(declare-fun t_1 () (_ BitVec 32))
(assert
 (bvule t_0 (_ bv1114111 32)))
(assert
 (bvule t_1 (_ bv1114111 32)))
(assert
 (not (or (not (= ((_ extract 31 8) t_0) (_ bv0 24))) (bvule (_ bv128 8) ((_ extract 7 0) t_0)))))
(assert
 (not (or (not (= ((_ extract 31 8) t_1) (_ bv0 24))) (bvule (_ bv128 8) ((_ extract 7 0) t_1)))))
(assert
 (let ((?x889 ((_ extract 7 0) t_1)))
 (let (($x1837 (= ?x889 (_ bv10 8))))
 (let ((?x1143 ((_ extract 7 0) t_0)))
 (let (($x541 (= ?x1143 (_ bv13 8))))
 (and $x541 $x1837))))))
(assert
 (let ((?x889 ((_ extract 7 0) t_1)))
 (let (($x1837 (= ?x889 (_ bv10 8))))
 (let ((?x1143 ((_ extract 7 0) t_0)))
 (let (($x541 (= ?x1143 (_ bv13 8))))
 (and $x541 $x1837))))))
(assert
 (let ((?x889 ((_ extract 7 0) t_1)))
 (let (($x1837 (= ?x889 (_ bv10 8))))
 (let ((?x1143 ((_ extract 7 0) t_0)))
 (let (($x541 (= ?x1143 (_ bv13 8))))
 (and $x541 $x1837))))))
(assert
 (let ((?x415 ((_ extract 7 7) t_1)))
 (let (($x784 (= ?x415 (_ bv0 1))))
 (let ((?x1047 ((_ extract 7 7) t_0)))
 (let (($x286 (= ?x1047 (_ bv0 1))))
 (and $x286 $x784))))))
(assert
 (let ((?x889 ((_ extract 7 0) t_1)))
 (let (($x1837 (= ?x889 (_ bv10 8))))
 (let ((?x1143 ((_ extract 7 0) t_0)))
 (let (($x541 (= ?x1143 (_ bv13 8))))
 (and $x541 $x1837))))))
(assert
 (let (($x383 (= t_1 (_ bv10 32))))
 (let (($x219 (= t_0 (_ bv13 32))))
 (and $x219 $x383))))
(assert
 (let (($x954 (and (= ((_ zero_extend 24) ((_ extract 7 0) t_0)) t_0) (= ((_ zero_extend 24) ((_ extract 7 0) t_1)) t_1))))
(not $x954)))
(check-sat)
