(set-logic ALL)
; benchmark generated from python API
(set-info :status unknown)
(declare-fun t_0 () (_ BitVec 32))
(declare-fun t_1 () (_ BitVec 32))
(assert
 (bvule t_0 (_ bv1114111 32)))
(assert
 (bvule t_1 (_ bv1114111 32)))
(assert
 (not (or (not (= ((_ extract 31 17) t_0) (_ bv0 15))) (bvule (_ bv65536 17) ((_ extract 16 0) t_0)))))
(assert
 (let ((?x1269 ((_ extract 15 0) t_0)))
 (let (($x845 (bvule ?x1269 (_ bv57343 16))))
 (let ((?x79 ((_ extract 31 16) t_0)))
 (let (($x1116 (= ?x79 (_ bv0 16))))
 (let (($x206 (bvule (_ bv55296 16) ?x1269)))
 (let (($x437 (not $x1116)))
 (let (($x183 (or $x437 $x206)))
 (not (and $x183 $x1116 $x845))))))))))
(assert
 (let ((?x240 ((_ extract 16 0) t_1)))
 (let (($x1701 (bvule (_ bv65536 17) ?x240)))
 (let (($x940 (or (not (= ((_ extract 31 17) t_1) (_ bv0 15))) $x1701)))
 (not (not $x940))))))
(assert
 (not (and (= ((_ extract 7 0) t_0) (_ bv10 8)) (= ((_ extract 15 8) t_0) (_ bv0 8)))))
(assert
 (let ((?x1662 (bvadd (_ bv4294901760 32) t_1)))
 (let ((?x1707 ((_ extract 17 10) ?x1662)))
 (let (($x444 (= ?x1707 (_ bv0 8))))
 (let ((?x706 ((_ extract 15 8) t_0)))
 (let (($x542 (= ?x706 (_ bv10 8))))
 (and $x542 $x444)))))))
(assert
 (let ((?x1662 (bvadd (_ bv4294901760 32) t_1)))
 (let ((?x1041 ((_ extract 20 18) ?x1662)))
 (let ((?x327 ((_ extract 23 23) ?x1662)))
 (let ((?x1109 (concat (_ bv3 2) ?x327 (_ bv3 2) ?x1041 (_ bv0 8))))
 (let (($x1221 (bvule ?x1109 (_ bv56319 16))))
 (let (($x814 (bvule (_ bv55296 16) ?x1109)))
 (and $x814 $x1221))))))))
(assert
 (let ((?x1929 ((_ extract 9 0) t_1)))
 (let ((?x1647 (concat (_ bv55 6) ?x1929)))
 (let (($x767 (bvule ?x1647 (_ bv57343 16))))
 (let (($x1381 (bvule (_ bv56320 16) ?x1647)))
 (and $x1381 $x767))))))
(assert
 (let (($x1522 (= t_1 (_ bv10 32))))
 (not $x1522)))
(assert
 (let ((?x1929 ((_ extract 9 0) t_1)))
(let ((?x1256 (concat (_ bv0 12) ((_ extract 19 18) (bvadd (_ bv4294901760 32) t_1)) (_ bv64 8) ?x1929)))
(let (($x1994 (= ?x1256 t_1)))
(let ((?x1505 ((_ extract 7 0) t_0)))
(let ((?x612 (concat (_ bv10 24) ?x1505)))
(let (($x1224 (= ?x612 t_0)))
(let (($x878 (and $x1224 $x1994)))
(not $x878)))))))))
(check-sat)
