(set-logic ALL)
; benchmark generated from python API
(set-info :status unknown)
(declare-fun t_0 () (_ BitVec 32))
(assert
 (bvule t_0 (_ bv1114111 32)))
(assert
 (not (or (not (= ((_ extract 31 8) t_0) (_ bv0 24))) (bvule (_ bv128 8) ((_ extract 7 0) t_0)))))
(assert
 (let ((?x1015 ((_ extract 7 0) t_0)))
 (let (($x1750 (= ?x1015 (_ bv10 8))))
 (not $x1750))))
(assert
 (let ((?x1015 ((_ extract 7 0) t_0)))
 (let (($x1750 (= ?x1015 (_ bv10 8))))
 (not $x1750))))
(assert
 (let ((?x1353 ((_ extract 7 7) t_0)))
 (= ?x1353 (_ bv0 1))))
(assert
 (let (($x1477 (= t_0 (_ bv10 32))))
 (not $x1477)))
(assert
 (let ((?x1015 ((_ extract 7 0) t_0)))
(let ((?x214 ((_ zero_extend 24) ?x1015)))
(let (($x337 (= ?x214 t_0)))
(not $x337)))))
(check-sat)
