(set-logic ALL)
; benchmark generated from python API
(set-info :status unknown)
(declare-fun t_0 () (_ BitVec 32))
(declare-fun t_1 () (_ BitVec 32))
(assert
 (bvule t_0 (_ bv1114111 32)))
(assert
 (bvule t_1 (_ bv1114111 32)))
(assert
 (let ((?x387 ((_ extract 16 0) t_0)))
 (let (($x1821 (bvule (_ bv65536 17) ?x387)))
 (let (($x1056 (or (not (= ((_ extract 31 17) t_0) (_ bv0 15))) $x1821)))
 (not (not $x1056))))))
(assert
 (not (or (not (= ((_ extract 31 17) t_1) (_ bv0 15))) (bvule (_ bv65536 17) ((_ extract 16 0) t_1)))))
(assert
 (let ((?x1930 ((_ extract 15 0) t_1)))
 (let (($x97 (bvule ?x1930 (_ bv57343 16))))
 (let ((?x767 ((_ extract 31 16) t_1)))
 (let (($x1696 (= ?x767 (_ bv0 16))))
 (let (($x678 (bvule (_ bv55296 16) ?x1930)))
 (let (($x1392 (not $x1696)))
 (let (($x31 (or $x1392 $x678)))
 (not (and $x31 $x1696 $x97))))))))))
(assert
 (not (and (= ((_ extract 7 0) t_1) (_ bv10 8)) (= ((_ extract 15 8) t_1) (_ bv0 8)))))
(assert
 (not (and (= ((_ extract 7 0) t_1) (_ bv10 8)) (= ((_ extract 15 8) t_1) (_ bv0 8)))))
(assert
 (not (and (= ((_ extract 7 0) t_1) (_ bv10 8)) (= ((_ extract 15 8) t_1) (_ bv0 8)))))
(assert
 (let ((?x1679 (bvadd (_ bv4294901760 32) t_0)))
 (let ((?x1000 ((_ extract 20 10) ?x1679)))
 (let ((?x1239 ((_ extract 23 23) ?x1679)))
 (let ((?x690 (concat (_ bv3 2) ?x1239 (_ bv3 2) ?x1000)))
 (let (($x815 (bvule ?x690 (_ bv56319 16))))
 (let (($x1043 (bvule (_ bv55296 16) ?x690)))
 (and $x1043 $x815))))))))
(assert
 (let ((?x873 ((_ extract 9 0) t_0)))
 (let ((?x448 (concat (_ bv55 6) ?x873)))
 (let (($x729 (bvule ?x448 (_ bv57343 16))))
 (let (($x227 (bvule (_ bv56320 16) ?x448)))
 (and $x227 $x729))))))
(assert
 (not (and (bvule (_ bv55296 16) ((_ extract 15 0) t_1)) (bvule ((_ extract 15 0) t_1) (_ bv56319 16)))))
(assert
 (not (and (bvule (_ bv56320 16) ((_ extract 15 0) t_1)) (bvule ((_ extract 15 0) t_1) (_ bv57343 16)))))
(assert
 (let (($x1062 (= t_1 (_ bv10 32))))
 (not $x1062)))
(assert
 (let ((?x1930 ((_ extract 15 0) t_1)))
(let ((?x780 (concat (_ bv0 16) ?x1930)))
(let (($x1658 (= ?x780 t_1)))
(let ((?x873 ((_ extract 9 0) t_0)))
(let ((?x79 (concat (_ bv0 12) ((_ extract 19 10) (bvadd (_ bv4294901760 32) t_0)) ?x873)))
(let ((?x1749 (bvadd (_ bv65536 32) ?x79)))
(let (($x990 (and (= ?x1749 t_0) $x1658)))
(not $x990)))))))))
(check-sat)
