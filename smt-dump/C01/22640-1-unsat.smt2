(set-logic ALL)
; benchmark generated from python API
(set-info :status unknown)
(declare-fun t_0 () (_ BitVec 32))
(assert
 (bvule t_0 (_ bv1114111 32)))
(assert
 (not (or (not (= ((_ extract 31 8) t_0) (_ bv0 24))) (bvule (_ bv128 8) ((_ extract 7 0) t_0)))))
(assert
 (let ((?x237 ((_ extract 7 7) t_0)))
 (= ?x237 (_ bv0 1))))
(assert
 (let ((?x1123 ((_ extract 7 0) t_0)))
(let ((?x1676 ((_ zero_extend 24) ?x1123)))
(let (($x1109 (= ?x1676 t_0)))
(not $x1109)))))
(check-sat)
