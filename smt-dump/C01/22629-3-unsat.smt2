(set-logic ALL)
; benchmark generated from python API
(set-info :status unknown)
(declare-fun t_0 () (_ BitVec 32))
(declare-fun t_1 () (_ BitVec 32))
(assert
 (bvule t_0 (_ bv1114111 32)))
(assert
 (bvule t_1 (_ bv1114111 32)))
(assert
 (= t_0 (_ bv10 32)))
(assert
 (not (or (not (= ((_ extract 31 8) t_0) (_ bv0 24))) (bvule (_ bv128 8) ((_ extract 7 0) t_0)))))
(assert
 (not (or (not (= ((_ extract 31 8) t_1) (_ bv0 24))) (bvule (_ bv128 8) ((_ extract 7 0) t_1)))))
(assert
 (let ((?x722 ((_ extract 7 0) t_1)))
 (= ?x722 (_ bv10 8))))
(assert
 (let ((?x589 ((_ extract 7 0) t_0)))
 (= ?x589 (_ bv10 8))))
(assert
 (let ((?x722 ((_ extract 7 0) t_1)))
 (= ?x722 (_ bv10 8))))
(assert
 (let ((?x722 ((_ extract 7 0) t_1)))
 (= ?x722 (_ bv10 8))))
(assert
 (= t_0 (_ bv10 32)))
(assert
 (= t_1 (_ bv10 32)))
(assert
 (let (($x1677 (= (_ bv10 32) t_0)))
(let (($x774 (and $x1677 (= (_ bv10 32) t_1))))
(not $x774))))
(check-sat)
