(set-logic ALL)
; benchmark generated from python API
(set-info :status unknown)
(declare-fun t_0 () (_ BitVec 32))
(declare-fun t_1 () (_ BitVec 32))
(assert
 (bvule t_0 (_ bv1114111 32)))
(assert
 (bvule t_1 (_ bv1114111 32)))
(assert
 (= t_0 (_ bv10 32)))
(assert
 (not (or (not (= ((_ extract 31 9) t_0) (_ bv0 23))) (bvule (_ bv256 9) ((_ extract 8 0) t_0)))))
(assert
 (not (or (not (= ((_ extract 31 9) t_1) (_ bv0 23))) (bvule (_ bv256 9) ((_ extract 8 0) t_1)))))
(assert
 (let ((?x201 ((_ extract 7 0) t_1)))
 (= ?x201 (_ bv10 8))))
(assert
 (let ((?x1406 ((_ extract 7 0) t_0)))
 (= ?x1406 (_ bv10 8))))
(assert
 (let ((?x201 ((_ extract 7 0) t_1)))
 (= ?x201 (_ bv10 8))))
(assert
 (let ((?x201 ((_ extract 7 0) t_1)))
 (= ?x201 (_ bv10 8))))
(assert
 (let ((?x201 ((_ extract 7 0) t_1)))
 (= ?x201 (_ bv10 8))))
(assert
 (= t_0 (_ bv10 32)))
(assert
 (= t_1 (_ bv10 32)))
(assert
 (let (($x895 (and (= ((_ zero_extend 24) ((_ extract 7 0) t_0)) t_0) (= ((_ zero_extend 24) ((_ extract 7 0) t_1)) t_1))))
(not $x895)))
(check-sat)
