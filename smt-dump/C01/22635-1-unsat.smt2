(set-logic ALL)
; benchmark generated from python API
(set-info :status unknown)
(declare-fun t_0 () (_ BitVec 32))
(assert
 (bvule t_0 (_ bv1114111 32)))
(assert
 (= t_0 (_ bv10 32)))
(assert
 (not (or (not (= ((_ extract 31 8) t_0) (_ bv0 24))) (bvule (_ bv128 8) ((_ extract 7 0) t_0)))))
(assert
 (let ((?x478 ((_ extract 7 0) t_0)))
 (= ?x478 (_ bv10 8))))
(assert
 (let ((?x478 ((_ extract 7 0) t_0)))
 (= ?x478 (_ bv10 8))))
(assert
 (let ((?x478 ((_ extract 7 0) t_0)))
 (= ?x478 (_ bv10 8))))
(assert
 (= ((_ extract 7 7) t_0) (_ bv0 1)))
(assert
 (let ((?x478 ((_ extract 7 0) t_0)))
 (= ?x478 (_ bv10 8))))
(assert
 (= t_0 (_ bv10 32)))
(assert
 (= t_0 (_ bv10 32)))
(assert
 (let ((?x478 ((_ extract 7 0) t_0)))
(let ((?x604 ((_ zero_extend 24) ?x478)))
(let (($x1172 (= ?x604 t_0)))
(not $x1172)))))
(check-sat)
