(set-logic ALL)
; benchmark generated from python API
(set-info :status unknown)
(declare-fun t_0 () (_ BitVec 32))
(assert
 (bvule t_0 (_ bv1114111 32)))
(assert
 (let (($x1741 (= t_0 (_ bv10 32))))
 (not $x1741)))
(assert
 (not (or (not (= ((_ extract 31 9) t_0) (_ bv0 23))) (bvule (_ bv256 9) ((_ extract 8 0) t_0)))))
(assert
 (let ((?x466 ((_ extract 7 0) t_0)))
 (let (($x434 (= ?x466 (_ bv10 8))))
 (not $x434))))
(assert
 (let ((?x466 ((_ extract 7 0) t_0)))
 (let (($x434 (= ?x466 (_ bv10 8))))
 (not $x434))))
(assert
 (let (($x1741 (= t_0 (_ bv10 32))))
 (not $x1741)))
(assert
 (let (($x1741 (= t_0 (_ bv10 32))))
 (not $x1741)))
(assert
 (let ((?x466 ((_ extract 7 0) t_0)))
(let ((?x644 ((_ zero_extend 24) ?x466)))
(let (($x1972 (= ?x644 t_0)))
(not $x1972)))))
(check-sat)
