(set-logic ALL)
; benchmark generated from python API
(set-info :status unknown)
(declare-fun t_0 () (_ BitVec 32))
(declare-fun t_1 () (_ BitVec 32))
(declare-fun t_2 () (_ BitVec 32))
(assert
 (bvule t_0 (_ bv1114111 32)))
(assert
 (bvule t_1 (_ bv1114111 32)))
(assert
 (bvule t_2 (_ bv1114111 32)))
(assert
 (= t_0 (_ bv10 32)))
(assert
 (not (or (not (= ((_ extract 31 17) t_0) (_ bv0 15))) (bvule (_ bv65536 17) ((_ extract 16 0) t_0)))))
(assert
 (let ((?x1942 ((_ extract 15 0) t_0)))
 (let (($x516 (bvule ?x1942 (_ bv57343 16))))
 (let (($x982 (= ((_ extract 31 16) t_0) (_ bv0 16))))
 (not (and (or (not $x982) (bvule (_ bv55296 16) ?x1942)) $x982 $x516))))))
(assert
 (let ((?x212 ((_ extract 16 0) t_1)))
 (let (($x1032 (bvule (_ bv65536 17) ?x212)))
 (let (($x1771 (or (not (= ((_ extract 31 17) t_1) (_ bv0 15))) $x1032)))
 (not (not $x1771))))))
(assert
 (not (or (not (= ((_ extract 31 17) t_2) (_ bv0 15))) (bvule (_ bv65536 17) ((_ extract 16 0) t_2)))))
(assert
 (let ((?x1884 ((_ extract 15 0) t_2)))
 (let (($x1739 (bvule ?x1884 (_ bv57343 16))))
 (let ((?x713 ((_ extract 31 16) t_2)))
 (let (($x423 (= ?x713 (_ bv0 16))))
 (let (($x356 (bvule (_ bv55296 16) ?x1884)))
 (let (($x1364 (not $x423)))
 (let (($x1096 (or $x1364 $x356)))
 (not (and $x1096 $x423 $x1739))))))))))
(assert
 (not (and (= ((_ extract 7 0) t_2) (_ bv10 8)) (= ((_ extract 15 8) t_2) (_ bv0 8)))))
(assert
 (let ((?x1138 ((_ extract 15 8) t_0)))
 (let (($x1130 (= ?x1138 (_ bv0 8))))
 (let ((?x1677 ((_ extract 7 0) t_0)))
 (let (($x237 (= ?x1677 (_ bv10 8))))
 (and $x237 $x1130))))))
(assert
 (not (and (= ((_ extract 7 0) t_2) (_ bv10 8)) (= ((_ extract 15 8) t_2) (_ bv0 8)))))
(assert
 (not (and (bvule (_ bv55296 16) ((_ extract 15 0) t_0)) (bvule ((_ extract 15 0) t_0) (_ bv56319 16)))))
(assert
 (not (and (bvule (_ bv56320 16) ((_ extract 15 0) t_0)) (bvule ((_ extract 15 0) t_0) (_ bv57343 16)))))
(assert
 (let ((?x2000 (bvadd (_ bv4294901760 32) t_1)))
 (let ((?x1215 ((_ extract 20 10) ?x2000)))
 (let ((?x1815 ((_ extract 23 23) ?x2000)))
 (let ((?x1123 (concat (_ bv3 2) ?x1815 (_ bv3 2) ?x1215)))
 (let (($x1979 (bvule ?x1123 (_ bv56319 16))))
 (let (($x572 (bvule (_ bv55296 16) ?x1123)))
 (and $x572 $x1979))))))))
(assert
 (let ((?x1083 ((_ extract 9 0) t_1)))
 (let ((?x1713 (concat (_ bv55 6) ?x1083)))
 (let (($x104 (bvule ?x1713 (_ bv57343 16))))
 (let (($x1970 (bvule (_ bv56320 16) ?x1713)))
 (and $x1970 $x104))))))
(assert
 (not (and (bvule (_ bv55296 16) ((_ extract 15 0) t_2)) (bvule ((_ extract 15 0) t_2) (_ bv56319 16)))))
(assert
 (not (and (bvule (_ bv56320 16) ((_ extract 15 0) t_2)) (bvule ((_ extract 15 0) t_2) (_ bv57343 16)))))
(assert
 (= t_0 (_ bv10 32)))
(assert
 (let (($x387 (= t_2 (_ bv10 32))))
 (not $x387)))
(assert
 (let ((?x1884 ((_ extract 15 0) t_2)))
(let ((?x972 (concat (_ bv0 16) ?x1884)))
(let (($x611 (= ?x972 t_2)))
(let ((?x1083 ((_ extract 9 0) t_1)))
(let ((?x1843 (concat (_ bv0 12) ((_ extract 19 10) (bvadd (_ bv4294901760 32) t_1)) ?x1083)))
(let ((?x251 (bvadd (_ bv65536 32) ?x1843)))
(let ((?x1942 ((_ extract 15 0) t_0)))
(let ((?x1704 (concat (_ bv0 16) ?x1942)))
(let (($x303 (= ?x1704 t_0)))
(let (($x762 (and $x303 (= ?x251 t_1) $x611)))
(not $x762))))))))))))
(check-sat)
