(set-logic ALL)
; benchmark generated from python API
(set-info :status unknown)
(declare-fun t_0 () (_ BitVec 32))
(assert
 (bvule t_0 (_ bv1114111 32)))
(assert
 (let (($x237 (= t_0 (_ bv10 32))))
 (not $x237)))
(assert
 (let ((?x1110 ((_ extract 7 0) t_0)))
 (let (($x212 (bvule (_ bv128 8) ?x1110)))
 (let (($x1857 (or (not (= ((_ extract 31 8) t_0) (_ bv0 24))) $x212)))
 (not (not $x1857))))))
(assert
 (let ((?x636 ((_ extract 11 0) t_0)))
 (let (($x895 (bvule (_ bv2048 12) ?x636)))
 (let (($x21 (or (not (= ((_ extract 31 12) t_0) (_ bv0 20))) $x895)))
 (not (not $x21))))))
(assert
 (not (or (not (= ((_ extract 31 17) t_0) (_ bv0 15))) (bvule (_ bv65536 17) ((_ extract 16 0) t_0)))))
(assert
 (let ((?x713 ((_ extract 15 0) t_0)))
 (let (($x1146 (bvule ?x713 (_ bv57343 16))))
 (let ((?x756 ((_ extract 31 16) t_0)))
 (let (($x1861 (= ?x756 (_ bv0 16))))
 (let (($x201 (bvule (_ bv55296 16) ?x713)))
 (let (($x840 (not $x1861)))
 (let (($x1844 (or $x840 $x201)))
 (not (and $x1844 $x1861 $x1146))))))))))
(assert
 (let ((?x434 ((_ extract 15 12) t_0)))
 (let ((?x1884 (concat (_ bv14 4) ?x434)))
 (let (($x2034 (bvule ?x1884 (_ bv223 8))))
 (let (($x602 (bvule (_ bv194 8) ?x1884)))
 (not (and $x602 $x2034)))))))
(assert
 (let ((?x434 ((_ extract 15 12) t_0)))
 (let ((?x1884 (concat (_ bv14 4) ?x434)))
 (let (($x2023 (bvule ?x1884 (_ bv239 8))))
 (let (($x1493 (bvule (_ bv224 8) ?x1884)))
 (and $x1493 $x2023))))))
(assert
 (let ((?x774 ((_ extract 5 0) t_0)))
 (let ((?x1117 (concat (_ bv2 2) ?x774)))
 (let (($x1388 (bvule ?x1117 (_ bv191 8))))
 (let (($x1023 (bvule (_ bv128 8) ?x1117)))
 (let ((?x434 ((_ extract 15 12) t_0)))
 (let (($x1514 (= ?x434 (_ bv13 4))))
 (let ((?x1664 (ite $x1514 (_ bv159 8) (_ bv191 8))))
 (let ((?x1838 ((_ extract 11 6) t_0)))
 (let ((?x330 (concat (_ bv2 2) ?x1838)))
 (let (($x269 (bvule ?x330 ?x1664)))
 (let (($x328 (= ?x434 (_ bv0 4))))
 (let ((?x28 (ite $x328 (_ bv160 8) (_ bv128 8))))
 (let (($x1047 (bvule ?x28 ?x330)))
 (and $x1047 $x269 $x1023 $x1388)))))))))))))))
(assert
 (let (($x237 (= t_0 (_ bv10 32))))
 (not $x237)))
(assert
 (let (($x237 (= t_0 (_ bv10 32))))
 (not $x237)))
(assert
 (let ((?x713 ((_ extract 15 0) t_0)))
(let ((?x347 (concat (_ bv0 16) ?x713)))
(let (($x692 (= ?x347 t_0)))
(not $x692)))))
(check-sat)
