(set-logic ALL)
; benchmark generated from python API
(set-info :status unknown)
(declare-fun t_0 () (_ BitVec 32))
(assert
 (bvule t_0 (_ bv1114111 32)))
(assert
 (not (or (not (= ((_ extract 31 8) t_0) (_ bv0 24))) (bvule (_ bv128 8) ((_ extract 7 0) t_0)))))
(assert
 (let ((?x2037 ((_ extract 7 7) t_0)))
 (= ?x2037 (_ bv0 1))))
(assert
 (let ((?x201 ((_ extract 7 0) t_0)))
(let ((?x903 ((_ zero_extend 24) ?x201)))
(let (($x1750 (= ?x903 t_0)))
(not $x1750)))))
(check-sat)
