(set-logic ALL)
; benchmark generated from python API
(set-info :status unknown)
(declare-fun t_0 () (_ BitVec 32))
(declare-fun t_1 () (_ BitVec 32))
(assert
 (bvule t_0 (_ bv1114111 32)))
(assert
 (bvule t_1 (_ bv1114111 32)))
(assert
 (let (($x1015 (= t_0 (_ bv10 32))))
 (not $x1015)))
(assert
 (let (($x839 (= t_1 (_ bv10 32))))
 (not $x839)))
(assert
 (not (or (not (= ((_ extract 31 8) t_0) (_ bv0 24))) (bvule (_ bv128 8) ((_ extract 7 0) t_0)))))
(assert
 (not (or (not (= ((_ extract 31 8) t_1) (_ bv0 24))) (bvule (_ bv128 8) ((_ extract 7 0) t_1)))))
(assert
 (let ((?x1559 ((_ extract 7 0) t_1)))
 (let (($x1750 (= ?x1559 (_ bv10 8))))
 (not $x1750))))
(assert
 (let ((?x464 ((_ extract 7 0) t_0)))
 (let (($x504 (= ?x464 (_ bv10 8))))
 (not $x504))))
(assert
 (let ((?x1559 ((_ extract 7 0) t_1)))
 (let (($x1750 (= ?x1559 (_ bv10 8))))
 (not $x1750))))
(assert
 (let ((?x954 ((_ extract 7 7) t_1)))
 (let (($x1431 (= ?x954 (_ bv0 1))))
 (let ((?x1514 ((_ extract 7 7) t_0)))
 (let (($x415 (= ?x1514 (_ bv0 1))))
 (and $x415 $x1431))))))
(assert
 (let (($x1015 (= t_0 (_ bv10 32))))
 (not $x1015)))
(assert
 (let (($x839 (= t_1 (_ bv10 32))))
 (not $x839)))
(assert
 (let (($x839 (= t_1 (_ bv10 32))))
 (not $x839)))
(assert
 (let (($x21 (and (= ((_ zero_extend 24) ((_ extract 7 0) t_0)) t_0) (= ((_ zero_extend 24) ((_ extract 7 0) t_1)) t_1))))
(not $x21)))
(check-sat)
