(set-logic ALL)
; benchmark generated from python API
(set-info :status unknown)
(declare-fun t_0 () (_ BitVec 32))
(declare-fun t_1 () (_ BitVec 32))
(assert
 (bvule t_0 (_ bv1114111 32)))
(assert
 (bvule t_1 (_ bv1114111 32)))
(assert
 (not (or (not (= ((_ extract 31 8) t_0) (_ bv0 24))) (bvule (_ bv128 8) ((_ extract 7 0) t_0)))))
(assert
 (not (or (not (= ((_ extract 31 8) t_1) (_ bv0 24))) (bvule (_ bv128 8) ((_ extract 7 0) t_1)))))
(assert
 (let ((?x722 ((_ extract 7 0) t_1)))
 (= ?x722 (_ bv10 8))))
(assert
 (let ((?x713 ((_ extract 7 0) t_0)))
 (= ?x713 (_ bv10 8))))
(assert
 (let ((?x722 ((_ extract 7 0) t_1)))
 (= ?x722 (_ bv10 8))))
(assert
 (let ((?x722 ((_ extract 7 0) t_1)))
 (= ?x722 (_ bv10 8))))
(assert
 (let ((?x28 ((_ extract 7 7) t_1)))
 (let (($x1544 (= ?x28 (_ bv0 1))))
 (let ((?x1178 ((_ extract 7 7) t_0)))
 (let (($x219 (= ?x1178 (_ bv0 1))))
 (and $x219 $x1544))))))
(assert
 (let ((?x722 ((_ extract 7 0) t_1)))
 (= ?x722 (_ bv10 8))))
(assert
 (= t_1 (_ bv10 32)))
(assert
 (let (($x1792 (and (= ((_ zero_extend 24) ((_ extract 7 0) t_0)) t_0) (= ((_ zero_extend 24) ((_ extract 7 0) t_1)) t_1))))
(not $x1792)))
(check-sat)
