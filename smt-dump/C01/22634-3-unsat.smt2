(set-logic ALL)
; benchmark generated from python API
(set-info :status unknown)
(declare-fun t_0 () (_ BitVec 32))
(declare-fun t_1 () (_ BitVec 32))
(assert
 (bvule t_0 (_ bv1114111 32)))
(assert
 (bvule t_1 (_ bv1114111 32)))
(assert
 (not (or (not (= ((_ extract 31 8) t_0) (_ bv0 24))) (bvule (_ bv128 8) ((_ extract 7 0) t_0)))))
(assert
 (not (or (not (= ((_ extract 31 8) t_1) (_ bv0 24))) (bvule (_ bv128 8) ((_ extract 7 0) t_1)))))
(assert
 (let ((?x1524 ((_ extract 7 0) t_1)))
 (= ?x1524 (_ bv10 8))))
(assert
 (let ((?x116 ((_ extract 7 0) t_0)))
 (= ?x116 (_ bv10 8))))
(assert
 (let ((?x1524 ((_ extract 7 0) t_1)))
 (= ?x1524 (_ bv10 8))))
(assert
 (let ((?x1524 ((_ extract 7 0) t_1)))
 (= ?x1524 (_ bv10 8))))
(assert
 (let ((?x504 ((_ extract 7 7) t_1)))
 (let (($x1514 (= ?x504 (_ bv0 1))))
 (let ((?x21 ((_ extract 7 7) t_0)))
 (let (($x1003 (= ?x21 (_ bv0 1))))
 (and $x1003 $x1514))))))
(assert
 (let ((?x1524 ((_ extract 7 0) t_1)))
 (= ?x1524 (_ bv10 8))))
(assert
 (= t_1 (_ bv10 32)))
(assert
 (let (($x1331 (and (= ((_ zero_extend 24) ((_ extract 7 0) t_0)) t_0) (= ((_ zero_extend 24) ((_ extract 7 0) t_1)) t_1))))
(not $x1331)))
(check-sat)
