(set-logic ALL)
; benchmark generated from python API
(set-info :status unknown)
(declare-fun t_0 () (_ BitVec 32))
(declare-fun t_1 () (_ BitVec 32))
(assert
 (bvule t_0 (_ bv1114111 32)))
(assert
 (bvule t_1 (_ bv1114111 32)))
(assert
 (not (or (not (= ((_ extract 31 9) t_0) (_ bv0 23))) (bvule (_ bv256 9) ((_ extract 8 0) t_0)))))
(assert
 (not (or (not (= ((_ extract 31 9) t_1) (_ bv0 23))) (bvule (_ bv256 9) ((_ extract 8 0) t_1)))))
(assert
 (let ((?x1728 ((_ extract 7 0) t_1)))
 (= ?x1728 (_ bv10 8))))
(assert
 (let ((?x1741 ((_ extract 7 0) t_0)))
 (let (($x892 (= ?x1741 (_ bv10 8))))
 (not $x892))))
(assert
 (let ((?x1728 ((_ extract 7 0) t_1)))
 (= ?x1728 (_ bv10 8))))
(assert
 (let ((?x1728 ((_ extract 7 0) t_1)))
 (= ?x1728 (_ bv10 8))))
(assert
 (let ((?x1741 ((_ extract 7 0) t_0)))
 (let (($x892 (= ?x1741 (_ bv10 8))))
 (not $x892))))
(assert
 (= t_1 (_ bv10 32)))
(assert
 (let (($x555 (and (= ((_ zero_extend 24) ((_ extract 7 0) t_0)) t_0) (= (_ bv10 32) t_1))))
(not $x555)))
(check-sat)
