(set-logic ALL)
; benchmark generated from python API
(set-info :status unknown)
(declare-fun t_0 () (_ BitVec 32))
(assert
 (bvule t_0 (_ bv1114111 32)))
(assert
 (not (or (not (= ((_ extract 31 9) t_0) (_ bv0 23))) (bvule (_ bv256 9) ((_ extract 8 0) t_0)))))
(assert
 (let ((?x1750 ((_ extract 7 0) t_0)))
 (let (($x1389 (= ?x1750 (_ bv10 8))))
 (not $x1389))))
(assert
 (let ((?x1750 ((_ extract 7 0) t_0)))
 (let (($x1389 (= ?x1750 (_ bv10 8))))
 (not $x1389))))
(assert
 (let ((?x1750 ((_ extract 7 0) t_0)))
 (let (($x1389 (= ?x1750 (_ bv10 8))))
 (not $x1389))))
(assert
 (let (($x337 (= t_0 (_ bv10 32))))
 (not $x337)))
(assert
 (let ((?x1750 ((_ extract 7 0) t_0)))
(let ((?x1146 ((_ zero_extend 24) ?x1750)))
(let (($x558 (= ?x1146 t_0)))
(not $x558)))))
(check-sat)
