(set-logic ALL)
; benchmark generated from python API
(set-info :status unknown)
(declare-fun t_0 () (_ BitVec 32))
(assert
 (bvule t_0 (_ bv1114111 32)))
(assert
 (let (($x466 (= t_0 (_ bv10 32))))
 (not $x466)))
(assert
 (not (or (not (= ((_ extract 31 8) t_0) (_ bv0 24))) (bvule (_ bv128 8) ((_ extract 7 0) t_0)))))
(assert
 (let ((?x829 ((_ extract 7 0) t_0)))
 (let (($x1406 (= ?x829 (_ bv10 8))))
 (not $x1406))))
(assert
 (let ((?x829 ((_ extract 7 0) t_0)))
 (let (($x1406 (= ?x829 (_ bv10 8))))
 (not $x1406))))
(assert
 (let ((?x471 ((_ extract 7 7) t_0)))
 (= ?x471 (_ bv0 1))))
(assert
 (let (($x466 (= t_0 (_ bv10 32))))
 (not $x466)))
(assert
 (let (($x466 (= t_0 (_ bv10 32))))
 (not $x466)))
(assert
 (let ((?x829 ((_ extract 7 0) t_0)))
(let ((?x603 ((_ zero_extend 24) ?x829)))
(let (($x1876 (= ?x603 t_0)))
(not $x1876)))))
(check-sat)
