(set-logic ALL)
; benchmark generated from python API
(set-info :status unknown)
(declare-fun t_0 () (_ BitVec 32))
(declare-fun t_1 () (_ BitVec 32))
(assert
 (bvule t_0 (_ bv1114111 32)))
(assert
 (bvule t_1 (_ bv1114111 32)))
(assert
 (let (($x285 (= t_0 (_ bv10 32))))
 (not $x285)))
(assert
 (let (($x60 (= t_1 (_ bv10 32))))
 (not $x60)))
(assert
 (not (or (not (= ((_ extract 31 9) t_0) (_ bv0 23))) (bvule (_ bv256 9) ((_ extract 8 0) t_0)))))
(assert
 (not (or (not (= ((_ extract 31 9) t_1) (_ bv0 23))) (bvule (_ bv256 9) ((_ extract 8 0) t_1)))))
(assert
 (let ((?x1074 ((_ extract 7 0) t_1)))
 (let (($x1792 (= ?x1074 (_ bv10 8))))
 (not $x1792))))
(assert
 (let ((?x1038 ((_ extract 7 0) t_0)))
 (let (($x1654 (= ?x1038 (_ bv10 8))))
 (not $x1654))))
(assert
 (let ((?x1074 ((_ extract 7 0) t_1)))
 (let (($x1792 (= ?x1074 (_ bv10 8))))
 (not $x1792))))
(assert
 (let ((?x1038 ((_ extract 7 0) t_0)))
 (let (($x1654 (= ?x1038 (_ bv10 8))))
 (not $x1654))))
(assert
 (let ((?x1074 ((_ extract 7 0) t_1)))
 (let (($x1792 (= ?x1074 (_ bv10 8))))
 (not $x1792))))
(assert
 (let (($x285 (= t_0 (_ bv10 32))))
 (not $x285)))
(assert
 (let (($x60 (= t_1 (_ bv10 32))))
 (not $x60)))
(assert
 (let (($x60 (= t_1 (_ bv10 32))))
 (not $x60)))
(assert
 (let (($x1047 (and (= ((_ zero_extend 24) ((_ extract 7 0) t_0)) t_0) (= ((_ zero_extend 24) ((_ extract 7 0) t_1)) t_1))))
(not $x1047)))
(check-sat)
