(set-logic ALL)
; benchmark generated from python API
(set-info :status unknown)
(declare-fun t_0 () (_ BitVec 32))
(declare-fun t_1 () (_ BitVec 32))
(declare-fun t_2 () (_ BitVec 32))
(assert
 (bvule t_0 (_ bv1114111 32)))
(assert
 (bvule t_1 (_ bv1114111 32)))
(assert
 (bvule t_2 (_ bv1114111 32)))
(assert
 (= t_0 (_ bv10 32)))
(assert
 (not (or (not (= ((_ extract 31 8) t_0) (_ bv0 24))) (bvule (_ bv128 8) ((_ extract 7 0) t_0)))))
(assert
 (let ((?x1207 ((_ extract 7 0) t_1)))
 (let (($x1969 (bvule (_ bv128 8) ?x1207)))
 (let (($x1116 (or (not (= ((_ extract 31 8) t_1) (_ bv0 24))) $x1969)))
 (not (not $x1116))))))
(assert
 (let ((?x1012 ((_ extract 11 0) t_1)))
 (let (($x1693 (bvule (_ bv2048 12) ?x1012)))
 (let (($x718 (or (not (= ((_ extract 31 12) t_1) (_ bv0 20))) $x1693)))
 (not (not $x718))))))
(assert
 (not (or (not (= ((_ extract 31 17) t_1) (_ bv0 15))) (bvule (_ bv65536 17) ((_ extract 16 0) t_1)))))
(assert
 (let ((?x1921 ((_ extract 15 0) t_1)))
 (let (($x688 (bvule ?x1921 (_ bv57343 16))))
 (let ((?x889 ((_ extract 31 16) t_1)))
 (let (($x706 (= ?x889 (_ bv0 16))))
 (let (($x24 (bvule (_ bv55296 16) ?x1921)))
 (let (($x217 (not $x706)))
 (let (($x602 (or $x217 $x24)))
 (not (and $x602 $x706 $x688))))))))))
(assert
 (not (or (not (= ((_ extract 31 8) t_2) (_ bv0 24))) (bvule (_ bv128 8) ((_ extract 7 0) t_2)))))
(assert
 (let ((?x185 ((_ extract 7 0) t_2)))
 (= ?x185 (_ bv10 8))))
(assert
 (let ((?x1038 ((_ extract 7 0) t_0)))
 (= ?x1038 (_ bv10 8))))
(assert
 (let ((?x185 ((_ extract 7 0) t_2)))
 (= ?x185 (_ bv10 8))))
(assert
 (let ((?x185 ((_ extract 7 0) t_2)))
 (= ?x185 (_ bv10 8))))
(assert
 (let ((?x1426 ((_ extract 15 12) t_1)))
 (let ((?x1704 (concat (_ bv14 4) ?x1426)))
 (let (($x1795 (bvule ?x1704 (_ bv223 8))))
 (let (($x1856 (bvule (_ bv194 8) ?x1704)))
 (not (and $x1856 $x1795)))))))
(assert
 (let ((?x1426 ((_ extract 15 12) t_1)))
 (let ((?x1704 (concat (_ bv14 4) ?x1426)))
 (let (($x28 (bvule ?x1704 (_ bv239 8))))
 (let (($x1796 (bvule (_ bv224 8) ?x1704)))
 (and $x1796 $x28))))))
(assert
 (let ((?x526 ((_ extract 5 0) t_1)))
 (let ((?x1849 (concat (_ bv2 2) ?x526)))
 (let (($x464 (bvule ?x1849 (_ bv191 8))))
 (let (($x833 (bvule (_ bv128 8) ?x1849)))
 (let ((?x1426 ((_ extract 15 12) t_1)))
 (let (($x1047 (= ?x1426 (_ bv13 4))))
 (let ((?x1706 (ite $x1047 (_ bv159 8) (_ bv191 8))))
 (let ((?x194 ((_ extract 11 6) t_1)))
 (let ((?x816 (concat (_ bv2 2) ?x194)))
 (let (($x544 (bvule ?x816 ?x1706)))
 (let (($x405 (= ?x1426 (_ bv0 4))))
 (let ((?x1748 (ite $x405 (_ bv160 8) (_ bv128 8))))
 (let (($x1650 (bvule ?x1748 ?x816)))
 (and $x1650 $x544 $x833 $x464)))))))))))))))
(assert
 (= t_0 (_ bv10 32)))
(assert
 (= t_2 (_ bv10 32)))
(assert
 (let ((?x1921 ((_ extract 15 0) t_1)))
(let ((?x2030 (concat (_ bv0 16) ?x1921)))
(let (($x1958 (= ?x2030 t_1)))
(let (($x572 (and (= (_ bv10 32) t_0) $x1958 (= (_ bv10 32) t_2))))
(not $x572))))))
(check-sat)
