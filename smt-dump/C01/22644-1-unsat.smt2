(set-logic ALL)
; benchmark generated from python API
(set-info :status unknown)
(declare-fun t_0 () (_ BitVec 32))
(assert
 (bvule t_0 (_ bv1114111 32)))
(assert
 (not (or (not (= ((_ extract 31 8) t_0) (_ bv0 24))) (bvule (_ bv128 8) ((_ extract 7 0) t_0)))))
(assert
 (let ((?x1123 ((_ extract 7 0) t_0)))
 (let (($x1109 (= ?x1123 (_ bv10 8))))
 (not $x1109))))
(assert
 (let ((?x1123 ((_ extract 7 0) t_0)))
 (let (($x1109 (= ?x1123 (_ bv10 8))))
 (not $x1109))))
(assert
 (let ((?x1883 ((_ extract 7 7) t_0)))
 (= ?x1883 (_ bv0 1))))
(assert
 (let (($x1477 (= t_0 (_ bv10 32))))
 (not $x1477)))
(assert
 (let ((?x1123 ((_ extract 7 0) t_0)))
(let ((?x1493 ((_ zero_extend 24) ?x1123)))
(let (($x558 (= ?x1493 t_0)))
(not $x558)))))
(check-sat)
