(set-logic ALL)
; benchmark generated from python API
(set-info :status unknown)
(declare-fun t_0 () (_ BitVec 32))
(declare-fun t_1 () (_ BitVec 32))
(declare-fun t_2 () (_ BitVec 32))
(assert
 (bvule t_0 (_ bv1114111 32)))
(assert
 (bvule t_1 (_ bv1114111 32)))
(assert
 (bvule t_2 (_ bv1114111 32)))
(assert
 (let (($x1773 (= t_0 (_ bv10 32))))
 (not $x1773)))
(assert
 (= t_1 (_ bv10 32)))
(assert
 (not (and (= t_0 (_ bv13 32)) (= t_1 (_ bv10 32)))))
(assert
 (not (or (not (= ((_ extract 31 8) t_0) (_ bv0 24))) (bvule (_ bv128 8) ((_ extract 7 0) t_0)))))
(assert
 (not (or (not (= ((_ extract 31 8) t_1) (_ bv0 24))) (bvule (_ bv128 8) ((_ extract 7 0) t_1)))))
(assert
 (let ((?x260 ((_ extract 7 0) t_2)))
 (let (($x1874 (bvule (_ bv128 8) ?x260)))
 (let (($x1161 (or (not (= ((_ extract 31 8) t_2) (_ bv0 24))) $x1874)))
 (not (not $x1161))))))
(assert
 (let ((?x679 ((_ extract 11 0) t_2)))
 (let (($x1683 (bvule (_ bv2048 12) ?x679)))
 (let (($x1927 (or (not (= ((_ extract 31 12) t_2) (_ bv0 20))) $x1683)))
 (not (not $x1927))))))
(assert
 (let ((?x315 ((_ extract 16 0) t_2)))
 (let (($x256 (bvule (_ bv65536 17) ?x315)))
 (let (($x541 (or (not (= ((_ extract 31 17) t_2) (_ bv0 15))) $x256)))
 (not (not $x541))))))
(assert
 (let ((?x63 ((_ extract 7 0) t_0)))
 (let (($x707 (= ?x63 (_ bv10 8))))
 (not $x707))))
(assert
 (let ((?x504 ((_ extract 7 0) t_1)))
 (= ?x504 (_ bv10 8))))
(assert
 (let ((?x63 ((_ extract 7 0) t_0)))
 (let (($x707 (= ?x63 (_ bv10 8))))
 (not $x707))))
(assert
 (let ((?x1599 ((_ extract 7 7) t_0)))
 (= ?x1599 (_ bv0 1))))
(assert
 (let ((?x1033 ((_ extract 20 18) t_2)))
 (let ((?x1441 (concat (_ bv30 5) ?x1033)))
 (let (($x2012 (bvule ?x1441 (_ bv223 8))))
 (let (($x1090 (bvule (_ bv194 8) ?x1441)))
 (not (and $x1090 $x2012)))))))
(assert
 (let ((?x1033 ((_ extract 20 18) t_2)))
 (let ((?x1441 (concat (_ bv30 5) ?x1033)))
 (let (($x548 (bvule ?x1441 (_ bv239 8))))
 (let (($x2010 (bvule (_ bv224 8) ?x1441)))
 (not (and $x2010 $x548)))))))
(assert
 (let ((?x1033 ((_ extract 20 18) t_2)))
 (let ((?x1441 (concat (_ bv30 5) ?x1033)))
 (let (($x1687 (bvule ?x1441 (_ bv244 8))))
 (let (($x168 (bvule (_ bv240 8) ?x1441)))
 (and $x168 $x1687))))))
(assert
 (let ((?x1876 ((_ extract 5 0) t_2)))
 (let ((?x1841 (concat (_ bv2 2) ?x1876)))
 (let (($x1089 (bvule ?x1841 (_ bv191 8))))
 (let (($x1338 (bvule (_ bv128 8) ?x1841)))
 (let ((?x1546 ((_ extract 11 6) t_2)))
 (let ((?x502 (concat (_ bv2 2) ?x1546)))
 (let (($x2005 (bvule ?x502 (_ bv191 8))))
 (let (($x526 (bvule (_ bv128 8) ?x502)))
 (let ((?x1033 ((_ extract 20 18) t_2)))
 (let (($x1863 (= ?x1033 (_ bv4 3))))
 (let ((?x1476 (ite $x1863 (_ bv143 8) (_ bv191 8))))
 (let ((?x161 ((_ extract 17 12) t_2)))
 (let ((?x1629 (concat (_ bv2 2) ?x161)))
 (let (($x1962 (bvule ?x1629 ?x1476)))
 (let (($x254 (= ?x1033 (_ bv0 3))))
 (let ((?x784 (ite $x254 (_ bv144 8) (_ bv128 8))))
 (let (($x1406 (bvule ?x784 ?x1629)))
 (and $x1406 $x1962 $x526 $x2005 $x1338 $x1089)))))))))))))))))))
(assert
 (let (($x1773 (= t_0 (_ bv10 32))))
 (not $x1773)))
(assert
 (= t_1 (_ bv10 32)))
(assert
 (not (and (= t_0 (_ bv13 32)) (= t_1 (_ bv10 32)))))
(assert
 (let (($x107 (= t_2 (_ bv10 32))))
 (not $x107)))
(assert
 (let ((?x1116 ((_ extract 20 0) t_2)))
(let ((?x1583 (concat (_ bv0 11) ?x1116)))
(let (($x1060 (= ?x1583 t_2)))
(let (($x1611 (= (_ bv10 32) t_1)))
(let (($x218 (and (= ((_ zero_extend 24) ((_ extract 7 0) t_0)) t_0) $x1611 $x1060)))
(not $x218)))))))
(check-sat)
