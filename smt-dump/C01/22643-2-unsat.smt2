(set-logic ALL)
; benchmark generated from python API
(set-info :status unknown)
(declare-fun t_0 () (_ BitVec 32))
(declare-fun t_1 () (_ BitVec 32))
(assert
 (bvule t_0 (_ bv1114111 32)))
(assert
 (bvule t_1 (_ bv1114111 32)))
(assert
 (not (or (not (= ((_ extract 31 8) t_0) (_ bv0 24))) (bvule (_ bv128 8) ((_ extract 7 0) t_0)))))
(assert
 (not (or (not (= ((_ extract 31 8) t_1) (_ bv0 24))) (bvule (_ bv128 8) ((_ extract 7 0) t_1)))))
(assert
 (let ((?x1406 ((_ extract 7 0) t_1)))
 (= ?x1406 (_ bv10 8))))
(assert
 (let ((?x185 ((_ extract 7 0) t_0)))
 (let (($x1972 (= ?x185 (_ bv10 8))))
 (not $x1972))))
(assert
 (let ((?x1406 ((_ extract 7 0) t_1)))
 (= ?x1406 (_ bv10 8))))
(assert
 (let ((?x1406 ((_ extract 7 0) t_1)))
 (= ?x1406 (_ bv10 8))))
(assert
 (let ((?x1728 ((_ extract 7 7) t_1)))
 (let (($x415 (= ?x1728 (_ bv0 1))))
 (let ((?x541 ((_ extract 7 7) t_0)))
 (let (($x504 (= ?x541 (_ bv0 1))))
 (and $x504 $x415))))))
(assert
 (let ((?x1406 ((_ extract 7 0) t_1)))
 (= ?x1406 (_ bv10 8))))
(assert
 (= t_1 (_ bv10 32)))
(assert
 (let (($x1157 (and (= ((_ zero_extend 24) ((_ extract 7 0) t_0)) t_0) (= ((_ zero_extend 24) ((_ extract 7 0) t_1)) t_1))))
(not $x1157)))
(check-sat)
