(set-logic ALL)
; benchmark generated from python API
(set-info :status unknown)
(declare-fun t_0 () (_ BitVec 32))
(declare-fun t_1 () (_ BitVec 32))
(assert
 (bvule t_0 (_ bv1114111 32)))
(assert
 (bvule t_1 (_ bv1114111 32)))
(assert
 (= t_0 (_ bv10 32)))
(assert
 (not (or (not (= ((_ extract 31 8) t_0) (_ bv0 24))) (bvule (_ bv128 8) ((_ extract 7 0) t_0)))))
(assert
 (not (or (not (= ((_ extract 31 8) t_1) (_ bv0 24))) (bvule (_ bv128 8) ((_ extract 7 0) t_1)))))
(assert
 (let ((?x829 ((_ extract 7 0) t_1)))
 (let (($x116 (= ?x829 (_ bv10 8))))
 (not $x116))))
(assert
 (let ((?x613 ((_ extract 7 0) t_0)))
 (= ?x613 (_ bv10 8))))
(assert
 (let ((?x829 ((_ extract 7 0) t_1)))
 (let (($x116 (= ?x829 (_ bv10 8))))
 (not $x116))))
(assert
 (let ((?x829 ((_ extract 7 0) t_1)))
 (let (($x116 (= ?x829 (_ bv10 8))))
 (not $x116))))
(assert
 (let ((?x1733 ((_ extract 7 7) t_1)))
 (= ?x1733 (_ bv0 1))))
(assert
 (= t_0 (_ bv10 32)))
(assert
 (let (($x982 (= t_1 (_ bv10 32))))
 (not $x982)))
(assert
 (let (($x387 (= (_ bv10 32) t_0)))
(let (($x2007 (and $x387 (= ((_ zero_extend 24) ((_ extract 7 0) t_1)) t_1))))
(not $x2007))))
(check-sat)
