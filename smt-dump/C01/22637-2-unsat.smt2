(set-logic ALL)
; benchmark generated from python API
(set-info :status unknown)
(declare-fun t_0 () (_ BitVec 32))
(declare-fun t_1 () (_ BitVec 32))
(assert
 (bvule t_0 (_ bv1114111 32)))
(assert
 (bvule t_1 (_ bv1114111 32)))
(assert
 (= t_0 (_ bv10 32)))
(assert
 (not (or (not (= ((_ extract 31 9) t_0) (_ bv0 23))) (bvule (_ bv256 9) ((_ extract 8 0) t_0)))))
(assert
 (not (or (not (= ((_ extract 31 9) t_1) (_ bv0 23))) (bvule (_ bv256 9) ((_ extract 8 0) t_1)))))
(assert
 (let ((?x1728 ((_ extract 7 0) t_1)))
 (let (($x1994 (= ?x1728 (_ bv10 8))))
 (not $x1994))))
(assert
 (= ((_ extract 7 0) t_0) (_ bv10 8)))
(assert
 (let ((?x1728 ((_ extract 7 0) t_1)))
 (let (($x1994 (= ?x1728 (_ bv10 8))))
 (not $x1994))))
(assert
 (let ((?x1728 ((_ extract 7 0) t_1)))
 (let (($x1994 (= ?x1728 (_ bv10 8))))
 (not $x1994))))
(assert
 (= t_0 (_ bv10 32)))
(assert
 (let (($x982 (= t_1 (_ bv10 32))))
 (not $x982)))
(assert
 (let (($x24 (= (_ bv10 32) t_0)))
(let (($x1162 (and $x24 (= ((_ zero_extend 24) ((_ extract 7 0) t_1)) t_1))))
(not $x1162))))
(check-sat)
