(set-logic ALL)
; benchmark generated from python API
(set-info :status unknown)
(declare-fun t_0 () (_ BitVec 32))
(assert
 (bvule t_0 (_ bv1114111 32)))
(assert
 (let (($x1475 (= t_0 (_ bv10 32))))
 (not $x1475)))
(assert
 (let ((?x1015 ((_ extract 7 0) t_0)))
 (let (($x892 (bvule (_ bv128 8) ?x1015)))
 (let (($x1711 (or (not (= ((_ extract 31 8) t_0) (_ bv0 24))) $x892)))
 (not (not $x1711))))))
(assert
 (not (or (not (= ((_ extract 31 12) t_0) (_ bv0 20))) (bvule (_ bv2048 12) ((_ extract 11 0) t_0)))))
(assert
 (let ((?x1685 ((_ extract 10 6) t_0)))
 (let ((?x1705 (concat (_ bv6 3) ?x1685)))
 (let (($x840 (bvule ?x1705 (_ bv223 8))))
 (let (($x1844 (bvule (_ bv194 8) ?x1705)))
 (and $x1844 $x840))))))
(assert
 (let ((?x774 ((_ extract 5 0) t_0)))
 (let ((?x1117 (concat (_ bv2 2) ?x774)))
 (let (($x1448 (bvule ?x1117 (_ bv191 8))))
 (let (($x889 (bvule (_ bv128 8) ?x1117)))
 (and $x889 $x1448))))))
(assert
 (let (($x1475 (= t_0 (_ bv10 32))))
 (not $x1475)))
(assert
 (let (($x1475 (= t_0 (_ bv10 32))))
 (not $x1475)))
(assert
 (let ((?x1775 (concat (_ bv0 21) ((_ extract 10 0) t_0))))
(let (($x1750 (= ?x1775 t_0)))
(not $x1750))))
(check-sat)
