(set-logic ALL)
; benchmark generated from python API
(set-info :status unknown)
(declare-fun t_0 () (_ BitVec 32))
(declare-fun t_1 () (_ BitVec 32))
(declare-fun t_2 () (_ BitVec 32))
(assert
 (bvule t_0 (_ bv1114111 32)))
(assert
 (bvule t_1 (_ bv1114111 32)))
(assert
 (bvule t_2 (_ bv1114111 32)))
(assert
 (not (or (not (= ((_ extract 31 9) t_0) (_ bv0 23))) (bvule (_ bv256 9) ((_ extract 8 0) t_0)))))
(assert
 (not (or (not (= ((_ extract 31 9) t_1) (_ bv0 23))) (bvule (_ bv256 9) ((_ extract 8 0) t_1)))))
(assert
 (not (or (not (= ((_ extract 31 9) t_2) (_ bv0 23))) (bvule (_ bv256 9) ((_ extract 8 0) t_2)))))
(assert
 (let ((?x76 ((_ extract 7 0) t_2)))
 (= ?x76 (_ bv10 8))))
(assert
 (let ((?x383 ((_ extract 7 0) t_0)))
 (= ?x383 (_ bv10 8))))
(assert
 (let ((?x1741 ((_ extract 7 0) t_1)))
 (let (($x296 (= ?x1741 (_ bv10 8))))
 (not $x296))))
(assert
 (let ((?x76 ((_ extract 7 0) t_2)))
 (= ?x76 (_ bv10 8))))
(assert
 (let ((?x76 ((_ extract 7 0) t_2)))
 (= ?x76 (_ bv10 8))))
(assert
 (let ((?x76 ((_ extract 7 0) t_2)))
 (= ?x76 (_ bv10 8))))
(assert
 (= t_2 (_ bv10 32)))
(assert
 (let (($x434 (and (= ((_ zero_extend 24) ((_ extract 7 0) t_0)) t_0) (= ((_ zero_extend 24) ((_ extract 7 0) t_1)) t_1) (= ((_ zero_extend 24) ((_ extract 7 0) t_2)) t_2))))
(not $x434)))
(check-sat)
