(set-logic ALL)
; benchmark generated from python API
(set-info :status unknown)
(declare-fun t_0 () (_ BitVec 32))
(declare-fun t_1 () (_ BitVec 32))
(declare-fun t_2 () (_ BitVec 32))
(assert
 (bvule t_0 (_ bv1114111 32)))
(assert
 (bvule t_1 (_ bv1114111 32)))
(assert
 (bvule t_2 (_ bv1114111 32)))
(assert
 (not (or (not (= ((_ extract 31 8) t_0) (_ bv0 24))) (bvule (_ bv128 8) ((_ extract 7 0) t_0)))))
(assert
 (not (or (not (= ((_ extract 31 8) t_1) (_ bv0 24))) (bvule (_ bv128 8) ((_ extract 7 0) t_1)))))
(assert
 (not (or (not (= ((_ extract 31 8) t_2) (_ bv0 24))) (bvule (_ bv128 8) ((_ extract 7 0) t_2)))))
(assert
 (let ((?x1529 ((_ extract 7 0) t_2)))
 (let (($x165 (= ?x1529 (_ bv10 8))))
 (not $x165))))
(assert
 (let ((?x589 ((_ extract 7 0) t_0)))
 (= ?x589 (_ bv10 8))))
(assert
 (let ((?x1291 ((_ extract 7 0) t_1)))
 (= ?x1291 (_ bv10 8))))
(assert
 (let ((?x1529 ((_ extract 7 0) t_2)))
 (let (($x165 (= ?x1529 (_ bv10 8))))
 (not $x165))))
(assert
 (let ((?x1529 ((_ extract 7 0) t_2)))
 (let (($x165 (= ?x1529 (_ bv10 8))))
 (not $x165))))
(assert
 (let ((?x21 ((_ extract 7 7) t_2)))
 (= ?x21 (_ bv0 1))))
(assert
 (let (($x2023 (= t_2 (_ bv10 32))))
 (not $x2023)))
(assert
 (let (($x1771 (and (= (_ bv10 32) t_0) (= (_ bv10 32) t_1) (= ((_ zero_extend 24) ((_ extract 7 0) t_2)) t_2))))
(not $x1771)))
(check-sat)
