(set-logic ALL)
; benchmark generated from python API
(set-info :status unknown)
(declare-fun t_0 () (_ BitVec 32))
(declare-fun t_1 () (_ BitVec 32))
(assert
 (bvule t_0 (_ bv1114111 32)))
(assert
 (bvule t_1 (_ bv1114111 32)))
(assert
 (let ((?x1062 ((_ extract 16 0) t_0)))
 (let (($x1012 (bvule (_ bv65536 17) ?x1062)))
 (let (($x1444 (or (not (= ((_ extract 31 17) t_0) (_ bv0 15))) $x1012)))
 (not (not $x1444))))))
(assert
 (not (or (not (= ((_ extract 31 17) t_1) (_ bv0 15))) (bvule (_ bv65536 17) ((_ extract 16 0) t_1)))))
(assert
 (let ((?x1112 ((_ extract 15 0) t_1)))
 (let (($x504 (bvule ?x1112 (_ bv57343 16))))
 (let ((?x1741 ((_ extract 31 16) t_1)))
 (let (($x784 (= ?x1741 (_ bv0 16))))
 (let (($x603 (bvule (_ bv55296 16) ?x1112)))
 (let (($x1172 (not $x784)))
 (let (($x1528 (or $x1172 $x603)))
 (not (and $x1528 $x784 $x504))))))))))
(assert
 (let ((?x163 (bvadd (_ bv4294901760 32) t_0)))
 (let ((?x348 ((_ extract 20 10) ?x163)))
 (let ((?x1972 ((_ extract 23 23) ?x163)))
 (let ((?x1611 (concat (_ bv3 2) ?x1972 (_ bv3 2) ?x348)))
 (let (($x322 (bvule ?x1611 (_ bv56319 16))))
 (let (($x908 (bvule (_ bv55296 16) ?x1611)))
 (and $x908 $x322))))))))
(assert
 (let ((?x1958 ((_ extract 9 0) t_0)))
 (let ((?x1679 (concat (_ bv55 6) ?x1958)))
 (let (($x408 (bvule ?x1679 (_ bv57343 16))))
 (let (($x1349 (bvule (_ bv56320 16) ?x1679)))
 (and $x1349 $x408))))))
(assert
 (not (and (bvule (_ bv55296 16) ((_ extract 15 0) t_1)) (bvule ((_ extract 15 0) t_1) (_ bv56319 16)))))
(assert
 (not (and (bvule (_ bv56320 16) ((_ extract 15 0) t_1)) (bvule ((_ extract 15 0) t_1) (_ bv57343 16)))))
(assert
 (not (and (= t_0 (_ bv13 32)) (= t_1 (_ bv10 32)))))
(assert
 (let ((?x1112 ((_ extract 15 0) t_1)))
(let ((?x1161 (concat (_ bv0 16) ?x1112)))
(let (($x829 (= ?x1161 t_1)))
(let ((?x1958 ((_ extract 9 0) t_0)))
(let ((?x55 (concat (_ bv0 12) ((_ extract 19 10) (bvadd (_ bv4294901760 32) t_0)) ?x1958)))
(let ((?x337 (bvadd (_ bv65536 32) ?x55)))
(let (($x1705 (and (= ?x337 t_0) $x829)))
(not $x1705)))))))))
(check-sat)
