(set-logic ALL)
; benchmark generated from python API
(set-info :status unknown)
(declare-fun t_0 () (_ BitVec 32))
(assert
 (bvule t_0 (_ bv1114111 32)))
(assert
 (not (or (not (= ((_ extract 31 8) t_0) (_ bv0 24))) (bvule (_ bv128 8) ((_ extract 7 0) t_0)))))
(assert
 (let ((?x218 ((_ extract 7 0) t_0)))
 (= ?x218 (_ bv10 8))))
(assert
 (let ((?x218 ((_ extract 7 0) t_0)))
 (= ?x218 (_ bv10 8))))
(assert
 (let ((?x218 ((_ extract 7 0) t_0)))
 (= ?x218 (_ bv10 8))))
(assert
 (let ((?x448 ((_ extract 7 7) t_0)))
 (= ?x448 (_ bv0 1))))
(assert
 (let ((?x218 ((_ extract 7 0) t_0)))
 (= ?x218 (_ bv10 8))))
(assert
 (= t_0 (_ bv10 32)))
(assert
 (let ((?x218 ((_ extract 7 0) t_0)))
(let ((?x1701 ((_ zero_extend 24) ?x218)))
(let (($x1206 (= ?x1701 t_0)))
(not $x1206)))))
(check-sat)
