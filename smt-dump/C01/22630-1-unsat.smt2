(set-logic ALL)
; benchmark generated from python API
(set-info :status unknown)
(declare-fun t_0 () (_ BitVec 32))
(declare-fun t_1 () (_ BitVec 32))
(assert
 (bvule t_0 (_ bv1114111 32)))
(assert
 (bvule t_1 (_ bv1114111 32)))
(assert
 (let (($x285 (= t_0 (_ bv10 32))))
 (not $x285)))
(assert
 (= t_1 (_ bv10 32)))
(assert
 (let (($x60 (= t_1 (_ bv10 32))))
 (let (($x181 (= t_0 (_ bv13 32))))
 (and $x181 $x60))))
(assert
 (not (or (not (= ((_ extract 31 8) t_0) (_ bv0 24))) (bvule (_ bv128 8) ((_ extract 7 0) t_0)))))
(assert
 (not (or (not (= ((_ extract 31 8) t_1) (_ bv0 24))) (bvule (_ bv128 8) ((_ extract 7 0) t_1)))))
(assert
 (let ((?x1116 ((_ extract 7 0) t_1)))
 (let (($x1837 (= ?x1116 (_ bv10 8))))
 (let ((?x1117 ((_ extract 7 0) t_0)))
 (let (($x1654 (= ?x1117 (_ bv13 8))))
 (and $x1654 $x1837))))))
(assert
 (let ((?x1116 ((_ extract 7 0) t_1)))
 (let (($x1837 (= ?x1116 (_ bv10 8))))
 (let ((?x1117 ((_ extract 7 0) t_0)))
 (let (($x1654 (= ?x1117 (_ bv13 8))))
 (and $x1654 $x1837))))))
(assert
 (let ((?x1116 ((_ extract 7 0) t_1)))
 (let (($x1837 (= ?x1116 (_ bv10 8))))
 (let ((?x1117 ((_ extract 7 0) t_0)))
 (let (($x1654 (= ?x1117 (_ bv13 8))))
 (and $x1654 $x1837))))))
(assert
 (let (($x784 (= ((_ extract 7 7) t_1) (_ bv0 1))))
 (let (($x286 (= ((_ extract 7 7) t_0) (_ bv0 1))))
 (and $x286 $x784))))
(assert
 (let ((?x1116 ((_ extract 7 0) t_1)))
 (let (($x1837 (= ?x1116 (_ bv10 8))))
 (let ((?x1117 ((_ extract 7 0) t_0)))
 (let (($x1654 (= ?x1117 (_ bv13 8))))
 (and $x1654 $x1837))))))
(assert
 (let (($x285 (= t_0 (_ bv10 32))))
 (not $x285)))
(assert
 (= t_1 (_ bv10 32)))
(assert
 (let (($x60 (= t_1 (_ bv10 32))))
 (let (($x181 (= t_0 (_ bv13 32))))
 (and $x181 $x60))))
(assert
 (let (($x60 (= t_1 (_ bv10 32))))
 (let (($x181 (= t_0 (_ bv13 32))))
 (and $x181 $x60))))
(assert
 (let (($x692 (and (= ((_ zero_extend 24) ((_ extract 7 0) t_0)) t_0) (= ((_ zero_extend 24) ((_ extract 7 0) t_1)) t_1))))
(not $x692)))
(check-sat)
