(set-logic ALL)
; benchmark generated from python API
(set-info :status unknown)
(declare-fun t_0 () (_ BitVec 32))
(assert
 (bvule t_0 (_ bv1114111 32)))
(assert
 (= t_0 (_ bv10 32)))
(assert
 (not (or (not (= ((_ extract 31 9) t_0) (_ bv0 23))) (bvule (_ bv256 9) ((_ extract 8 0) t_0)))))
(assert
 (let ((?x1109 ((_ extract 7 0) t_0)))
 (= ?x1109 (_ bv10 8))))
(assert
 (let ((?x1109 ((_ extract 7 0) t_0)))
 (= ?x1109 (_ bv10 8))))
(assert
 (let ((?x1109 ((_ extract 7 0) t_0)))
 (= ?x1109 (_ bv10 8))))
(assert
 (let ((?x1109 ((_ extract 7 0) t_0)))
 (= ?x1109 (_ bv10 8))))
(assert
 (= t_0 (_ bv10 32)))
(assert
 (= t_0 (_ bv10 32)))
(assert
 (let ((?x1109 ((_ extract 7 0) t_0)))
(let ((?x604 ((_ zero_extend 24) ?x1109)))
(let (($x471 (= ?x604 t_0)))
(not $x471)))))
(check-sat)
