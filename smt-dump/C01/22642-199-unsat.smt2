(set-logic ALL)
; benchmark generated from python API
(set-info :status unknown)
(declare-fun t_0 () (_ BitVec 32))
(declare-fun t_1 () (_ BitVec 32))
(declare-fun t_2 () (_ BitVec 32))
(assert
 (bvule t_0 (_ bv1114111 32)))
(assert
 (bvule t_1 (_ bv1114111 32)))
(assert
 (bvule t_2 (_ bv1114111 32)))
(assert
 (let ((?x314 ((_ extract 16 0) t_0)))
 (let (($x571 (bvule (_ bv65536 17) ?x314)))
 (let (($x1083 (or (not (= ((_ extract 31 17) t_0) (_ bv0 15))) $x571)))
 (not (not $x1083))))))
(assert
 (not (or (not (= ((_ extract 31 17) t_1) (_ bv0 15))) (bvule (_ bv65536 17) ((_ extract 16 0) t_1)))))
(assert
 (let ((?x729 ((_ extract 15 0) t_1)))
 (let (($x213 (bvule ?x729 (_ bv57343 16))))
 (let ((?x1793 ((_ extract 31 16) t_1)))
 (let (($x1876 (= ?x1793 (_ bv0 16))))
 (let (($x415 (bvule (_ bv55296 16) ?x729)))
 (let (($x840 (not $x1876)))
 (let (($x1679 (or $x840 $x415)))
 (not (and $x1679 $x1876 $x213))))))))))
(assert
 (not (or (not (= ((_ extract 31 17) t_2) (_ bv0 15))) (bvule (_ bv65536 17) ((_ extract 16 0) t_2)))))
(assert
 (let ((?x1528 ((_ extract 15 0) t_2)))
 (let (($x1349 (bvule ?x1528 (_ bv57343 16))))
 (let ((?x275 ((_ extract 31 16) t_2)))
 (let (($x1039 (= ?x275 (_ bv0 16))))
 (let (($x1969 (bvule (_ bv55296 16) ?x1528)))
 (let (($x420 (not $x1039)))
 (let (($x1385 (or $x420 $x1969)))
 (not (and $x1385 $x1039 $x1349))))))))))
(assert
 (not (and (= ((_ extract 7 0) t_2) (_ bv10 8)) (= ((_ extract 15 8) t_2) (_ bv0 8)))))
(assert
 (let ((?x647 ((_ extract 15 8) t_1)))
 (let (($x175 (= ?x647 (_ bv0 8))))
 (let ((?x1672 ((_ extract 7 0) t_1)))
 (let (($x754 (= ?x1672 (_ bv10 8))))
 (and $x754 $x175))))))
(assert
 (not (and (= ((_ extract 7 0) t_2) (_ bv10 8)) (= ((_ extract 15 8) t_2) (_ bv0 8)))))
(assert
 (not (and (= ((_ extract 7 0) t_2) (_ bv10 8)) (= ((_ extract 15 8) t_2) (_ bv0 8)))))
(assert
 (let ((?x1250 (bvadd (_ bv4294901760 32) t_0)))
 (let ((?x60 ((_ extract 20 10) ?x1250)))
 (let ((?x1427 ((_ extract 23 23) ?x1250)))
 (let ((?x866 (concat (_ bv3 2) ?x1427 (_ bv3 2) ?x60)))
 (let (($x1062 (bvule ?x866 (_ bv56319 16))))
 (let (($x636 (bvule (_ bv55296 16) ?x866)))
 (and $x636 $x1062))))))))
(assert
 (let ((?x260 ((_ extract 9 0) t_0)))
 (let ((?x1439 (concat (_ bv55 6) ?x260)))
 (let (($x2031 (bvule ?x1439 (_ bv57343 16))))
 (let (($x1377 (bvule (_ bv56320 16) ?x1439)))
 (and $x1377 $x2031))))))
(assert
 (not (and (bvule (_ bv55296 16) ((_ extract 15 0) t_2)) (bvule ((_ extract 15 0) t_2) (_ bv56319 16)))))
(assert
 (not (and (bvule (_ bv56320 16) ((_ extract 15 0) t_2)) (bvule ((_ extract 15 0) t_2) (_ bv57343 16)))))
(assert
 (let (($x589 (= t_2 (_ bv10 32))))
 (not $x589)))
(assert
 (let ((?x1528 ((_ extract 15 0) t_2)))
(let ((?x2024 (concat (_ bv0 16) ?x1528)))
(let (($x883 (= ?x2024 t_2)))
(let ((?x260 ((_ extract 9 0) t_0)))
(let ((?x348 (concat (_ bv0 12) ((_ extract 19 10) (bvadd (_ bv4294901760 32) t_0)) ?x260)))
(let ((?x296 (bvadd (_ bv65536 32) ?x348)))
(let (($x1837 (and (= ?x296 t_0) (= (_ bv10 32) t_1) $x883)))
(not $x1837)))))))))
(check-sat)
