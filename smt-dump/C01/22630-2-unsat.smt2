(set-logic ALL)
; benchmark generated from python API
(set-info :status unknown)
(declare-fun t_0 () (_ BitVec 32))
(declare-fun t_1 () (_ BitVec 32))
(assert
 (bvule t_0 (_ bv1114111 32)))
(assert
 (bvule t_1 (_ bv1114111 32)))
(assert
 (let (($x218 (= t_0 (_ bv10 32))))
 (not $x218)))
(assert
 (= t_1 (_ bv10 32)))
(assert
 (not (and (= t_0 (_ bv13 32)) (= t_1 (_ bv10 32)))))
(assert
 (not (or (not (= ((_ extract 31 8) t_0) (_ bv0 24))) (bvule (_ bv128 8) ((_ extract 7 0) t_0)))))
(assert
 (not (or (not (= ((_ extract 31 8) t_1) (_ bv0 24))) (bvule (_ bv128 8) ((_ extract 7 0) t_1)))))
(assert
 (let ((?x24 ((_ extract 7 0) t_1)))
 (= ?x24 (_ bv10 8))))
(assert
 (let ((?x1750 ((_ extract 7 0) t_0)))
 (let (($x452 (= ?x1750 (_ bv10 8))))
 (not $x452))))
(assert
 (let ((?x24 ((_ extract 7 0) t_1)))
 (= ?x24 (_ bv10 8))))
(assert
 (let ((?x24 ((_ extract 7 0) t_1)))
 (= ?x24 (_ bv10 8))))
(assert
 (let (($x1514 (= ((_ extract 7 7) t_1) (_ bv0 1))))
 (let ((?x1677 ((_ extract 7 7) t_0)))
 (let (($x1705 (= ?x1677 (_ bv0 1))))
 (and $x1705 $x1514)))))
(assert
 (let ((?x24 ((_ extract 7 0) t_1)))
 (= ?x24 (_ bv10 8))))
(assert
 (let (($x218 (= t_0 (_ bv10 32))))
 (not $x218)))
(assert
 (= t_1 (_ bv10 32)))
(assert
 (not (and (= t_0 (_ bv13 32)) (= t_1 (_ bv10 32)))))
(assert
 (= t_1 (_ bv10 32)))
(assert
 (let (($x982 (and (= ((_ zero_extend 24) ((_ extract 7 0) t_0)) t_0) (= ((_ zero_extend 24) ((_ extract 7 0) t_1)) t_1))))
(not $x982)))
(check-sat)
