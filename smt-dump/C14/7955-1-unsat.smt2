(set-logic ALL)
; benchmark generated from python API
(set-info :status unknown)
(declare-fun l0os_0 () (_ BitVec 8))
(declare-fun l0ms_0 () (_ BitVec 8))
(declare-fun l1f_1 () (_ BitVec 8))
(declare-fun l1f_0 () (_ BitVec 8))
(assert
 (and (bvuge l0os_0 (_ bv48 8)) (bvule l0os_0 (_ bv57 8))))
(assert
 (and (bvuge l0ms_0 (_ bv48 8)) (bvule l0ms_0 (_ bv57 8))))
(assert
 (let ((?x1969 ((_ extract 5 0) l0os_0)))
 (let (($x1080 (bvule ?x1969 (_ bv57 6))))
 (let ((?x1265 ((_ extract 7 6) l0os_0)))
 (let (($x971 (= ?x1265 (_ bv0 2))))
 (let (($x2076 (bvule (_ bv48 6) ?x1969)))
 (let (($x96 (or (not $x971) $x2076)))
 (and $x96 $x971 $x1080))))))))
(assert
 (let ((?x1993 ((_ extract 5 0) l0ms_0)))
 (let (($x1576 (bvule ?x1993 (_ bv57 6))))
 (let ((?x902 ((_ extract 7 6) l0ms_0)))
 (let (($x973 (= ?x902 (_ bv0 2))))
 (let (($x464 (bvule (_ bv48 6) ?x1993)))
 (let (($x1286 (or (not $x973) $x464)))
 (and $x1286 $x973 $x1576))))))))
(assert
 (let ((?x1969 ((_ extract 5 0) l0os_0)))
 (let (($x1080 (bvule ?x1969 (_ bv57 6))))
 (let ((?x1265 ((_ extract 7 6) l0os_0)))
 (let (($x971 (= ?x1265 (_ bv0 2))))
 (let (($x2076 (bvule (_ bv48 6) ?x1969)))
 (let (($x96 (or (not $x971) $x2076)))
 (and $x96 $x971 $x1080))))))))
(assert
 (let ((?x1993 ((_ extract 5 0) l0ms_0)))
 (let (($x1576 (bvule ?x1993 (_ bv57 6))))
 (let ((?x902 ((_ extract 7 6) l0ms_0)))
 (let (($x973 (= ?x902 (_ bv0 2))))
 (let (($x464 (bvule (_ bv48 6) ?x1993)))
 (let (($x1286 (or (not $x973) $x464)))
 (and $x1286 $x973 $x1576))))))))
(assert
 (not (and (= l1f_0 (_ bv64 8)) (= l1f_1 (_ bv64 8)))))
(assert
 (= l1f_0 (_ bv45 8)))
(assert
 (let ((?x1969 ((_ extract 5 0) l0os_0)))
 (let (($x1080 (bvule ?x1969 (_ bv57 6))))
 (let ((?x1265 ((_ extract 7 6) l0os_0)))
 (let (($x971 (= ?x1265 (_ bv0 2))))
 (let (($x2076 (bvule (_ bv48 6) ?x1969)))
 (let (($x96 (or (not $x971) $x2076)))
 (and $x96 $x971 $x1080))))))))
(assert
 (let ((?x1993 ((_ extract 5 0) l0ms_0)))
 (let (($x1576 (bvule ?x1993 (_ bv57 6))))
 (let ((?x902 ((_ extract 7 6) l0ms_0)))
 (let (($x973 (= ?x902 (_ bv0 2))))
 (let (($x464 (bvule (_ bv48 6) ?x1993)))
 (let (($x1286 (or (not $x973) $x464)))
 (and $x1286 $x973 $x1576))))))))
(assert
 (let ((?x1969 ((_ extract 5 0) l0os_0)))
 (let (($x1080 (bvule ?x1969 (_ bv57 6))))
 (let ((?x1265 ((_ extract 7 6) l0os_0)))
 (let (($x971 (= ?x1265 (_ bv0 2))))
 (let (($x2076 (bvule (_ bv48 6) ?x1969)))
 (let (($x96 (or (not $x971) $x2076)))
 (and $x96 $x971 $x1080))))))))
(assert
 (let ((?x1993 ((_ extract 5 0) l0ms_0)))
 (let (($x1576 (bvule ?x1993 (_ bv57 6))))
 (let ((?x902 ((_ extract 7 6) l0ms_0)))
 (let (($x973 (= ?x902 (_ bv0 2))))
 (let (($x464 (bvule (_ bv48 6) ?x1993)))
 (let (($x1286 (or (not $x973) $x464)))
 (and $x1286 $x973 $x1576))))))))
(assert
 (not (and (= l1f_0 (_ bv64 8)) (= l1f_1 (_ bv64 8)))))
(assert
 (not (and (= l1f_0 (_ bv64 8)) (= l1f_1 (_ bv64 8)))))
(assert
 (= l1f_0 (_ bv45 8)))
(assert
 (let (($x497 (and (= l1f_0 l1f_0) (= l1f_1 l1f_1))))
(not $x497)))
(check-sat)
