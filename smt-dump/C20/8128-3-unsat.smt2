(set-logic ALL)
; benchmark generated from python API
(set-info :status unknown)
(declare-fun t_0 () (_ BitVec 32))
(declare-fun t_1 () (_ BitVec 32))
(declare-fun t_2 () (_ BitVec 32))
(assert
 (bvule t_0 (_ bv1114111 32)))
(assert
 (bvule t_1 (_ bv1114111 32)))
(assert
 (bvule t_2 (_ bv1114111 32)))
(assert
 (not (= t_0 (_ bv46 32))))
(assert
 (not (= t_0 (_ bv35 32))))
(assert
 (not (= t_0 (_ bv35 32))))
(assert
 (not (= t_0 (_ bv35 32))))
(assert
 (not (= t_0 (_ bv35 32))))
(assert
 (let (($x267 (= t_2 (_ bv10 32))))
 (not $x267)))
(assert
 (let (($x20 (= t_1 (_ bv10 32))))
 (not $x20)))
(assert
 (= t_0 (_ bv10 32)))
(assert
 (let (($x586 (= t_1 (_ bv46 32))))
 (not $x586)))
(assert
 (let (($x1519 (= t_1 (_ bv35 32))))
 (not $x1519)))
(assert
 (let (($x1519 (= t_1 (_ bv35 32))))
 (not $x1519)))
(assert
 (let (($x1519 (= t_1 (_ bv35 32))))
 (not $x1519)))
(assert
 (let (($x1519 (= t_1 (_ bv35 32))))
 (not $x1519)))
(assert
 (let (($x267 (= t_2 (_ bv10 32))))
 (not $x267)))
(assert
 (let (($x20 (= t_1 (_ bv10 32))))
 (not $x20)))
(assert
 (let (($x20 (= t_1 (_ bv10 32))))
 (not $x20)))
(assert
 (let (($x307 (= t_2 (_ bv46 32))))
 (not $x307)))
(assert
 (let (($x1373 (= t_2 (_ bv35 32))))
 (not $x1373)))
(assert
 (let (($x1373 (= t_2 (_ bv35 32))))
 (not $x1373)))
(assert
 (let (($x1373 (= t_2 (_ bv35 32))))
 (not $x1373)))
(assert
 (let (($x1373 (= t_2 (_ bv35 32))))
 (not $x1373)))
(assert
 (let (($x267 (= t_2 (_ bv10 32))))
 (not $x267)))
(assert
 (let (($x267 (= t_2 (_ bv10 32))))
 (not $x267)))
(assert
 (let (($x1399 (and (= t_0 t_0) (= t_1 t_1) (= t_2 t_2))))
(not $x1399)))
(check-sat)
