(set-logic ALL)
; benchmark generated from python API
(set-info :status unknown)
(declare-fun t_0 () (_ BitVec 32))
(declare-fun t_1 () (_ BitVec 32))
(declare-fun t_2 () (_ BitVec 32))
(assert
 (bvule t_0 (_ bv1114111 32)))
(assert
 (bvule t_1 (_ bv1114111 32)))
(assert
 (bvule t_2 (_ bv1114111 32)))
(assert
 (let (($x2176 (= t_0 (_ bv46 32))))
 (not $x2176)))
(assert
 (let (($x2417 (= t_0 (_ bv35 32))))
 (not $x2417)))
(assert
 (let (($x2417 (= t_0 (_ bv35 32))))
 (not $x2417)))
(assert
 (let (($x2417 (= t_0 (_ bv35 32))))
 (not $x2417)))
(assert
 (let (($x2417 (= t_0 (_ bv35 32))))
 (not $x2417)))
(assert
 (let (($x842 (= t_2 (_ bv10 32))))
 (not $x842)))
(assert
 (let (($x1322 (= t_1 (_ bv10 32))))
 (not $x1322)))
(assert
 (let (($x20 (= t_0 (_ bv10 32))))
 (not $x20)))
(assert
 (let (($x20 (= t_0 (_ bv10 32))))
 (not $x20)))
(assert
 (= t_1 (_ bv46 32)))
(assert
 (= t_2 (_ bv46 32)))
(assert
 (not (= t_1 (_ bv35 32))))
(assert
 (not (= t_1 (_ bv35 32))))
(assert
 (not (= t_1 (_ bv35 32))))
(assert
 (not (= t_1 (_ bv35 32))))
(assert
 (let (($x842 (= t_2 (_ bv10 32))))
 (not $x842)))
(assert
 (let (($x1322 (= t_1 (_ bv10 32))))
 (not $x1322)))
(assert
 (let (($x1322 (= t_1 (_ bv10 32))))
 (not $x1322)))
(assert
 (= t_2 (_ bv46 32)))
(assert
 (not (= t_2 (_ bv35 32))))
(assert
 (not (= t_2 (_ bv35 32))))
(assert
 (not (= t_2 (_ bv35 32))))
(assert
 (not (= t_2 (_ bv35 32))))
(assert
 (let (($x842 (= t_2 (_ bv10 32))))
 (not $x842)))
(assert
 (let (($x842 (= t_2 (_ bv10 32))))
 (not $x842)))
(assert
 (let (($x2011 (and (= t_0 t_0) (= t_1 t_1) (= t_2 t_2))))
(not $x2011)))
(check-sat)
