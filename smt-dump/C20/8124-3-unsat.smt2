(set-logic ALL)
; benchmark generated from python API
(set-info :status unknown)
(declare-fun t_0 () (_ BitVec 32))
(declare-fun t_1 () (_ BitVec 32))
(declare-fun t_2 () (_ BitVec 32))
(declare-fun t_3 () (_ BitVec 32))
(assert
 (bvule t_0 (_ bv1114111 32)))
(assert
 (bvule t_1 (_ bv1114111 32)))
(assert
 (bvule t_2 (_ bv1114111 32)))
(assert
 (bvule t_3 (_ bv1114111 32)))
(assert
 (= t_0 (_ bv46 32)))
(assert
 (let (($x1756 (= t_1 (_ bv46 32))))
 (not $x1756)))
(assert
 (not (= t_0 (_ bv35 32))))
(assert
 (not (= t_0 (_ bv35 32))))
(assert
 (not (= t_0 (_ bv35 32))))
(assert
 (not (= t_0 (_ bv35 32))))
(assert
 (let (($x1785 (= t_3 (_ bv10 32))))
 (not $x1785)))
(assert
 (not (= t_2 (_ bv10 32))))
(assert
 (let (($x1647 (= t_1 (_ bv10 32))))
 (not $x1647)))
(assert
 (not (= t_0 (_ bv10 32))))
(assert
 (not (= t_0 (_ bv10 32))))
(assert
 (let (($x1756 (= t_1 (_ bv46 32))))
 (not $x1756)))
(assert
 (let (($x1497 (= t_1 (_ bv35 32))))
 (not $x1497)))
(assert
 (let (($x1497 (= t_1 (_ bv35 32))))
 (not $x1497)))
(assert
 (let (($x1497 (= t_1 (_ bv35 32))))
 (not $x1497)))
(assert
 (let (($x1497 (= t_1 (_ bv35 32))))
 (not $x1497)))
(assert
 (let (($x1785 (= t_3 (_ bv10 32))))
 (not $x1785)))
(assert
 (not (= t_2 (_ bv10 32))))
(assert
 (let (($x1647 (= t_1 (_ bv10 32))))
 (not $x1647)))
(assert
 (let (($x1647 (= t_1 (_ bv10 32))))
 (not $x1647)))
(assert
 (= t_2 (_ bv46 32)))
(assert
 (let (($x2406 (= t_3 (_ bv46 32))))
 (not $x2406)))
(assert
 (not (= t_2 (_ bv35 32))))
(assert
 (not (= t_2 (_ bv35 32))))
(assert
 (not (= t_2 (_ bv35 32))))
(assert
 (not (= t_2 (_ bv35 32))))
(assert
 (let (($x1785 (= t_3 (_ bv10 32))))
 (not $x1785)))
(assert
 (not (= t_2 (_ bv10 32))))
(assert
 (not (= t_2 (_ bv10 32))))
(assert
 (let (($x2406 (= t_3 (_ bv46 32))))
 (not $x2406)))
(assert
 (let (($x2176 (= t_3 (_ bv35 32))))
 (not $x2176)))
(assert
 (let (($x2176 (= t_3 (_ bv35 32))))
 (not $x2176)))
(assert
 (let (($x2176 (= t_3 (_ bv35 32))))
 (not $x2176)))
(assert
 (let (($x2176 (= t_3 (_ bv35 32))))
 (not $x2176)))
(assert
 (let (($x1785 (= t_3 (_ bv10 32))))
 (not $x1785)))
(assert
 (let (($x1785 (= t_3 (_ bv10 32))))
 (not $x1785)))
(assert
 (let (($x881 (and (= t_0 t_0) (= t_1 t_1) (= t_2 t_2) (= t_3 t_3))))
(not $x881)))
(check-sat)
