(set-logic ALL)
; benchmark generated from python API
(set-info :status unknown)
(declare-fun t_0 () (_ BitVec 32))
(declare-fun t_1 () (_ BitVec 32))
(declare-fun t_2 () (_ BitVec 32))
(assert
 (bvule t_0 (_ bv1114111 32)))
(assert
 (bvule t_1 (_ bv1114111 32)))
(assert
 (bvule t_2 (_ bv1114111 32)))
(assert
 (not (= t_0 (_ bv46 32))))
(assert
 (= t_0 (_ bv35 32)))
(assert
 (not (= t_1 (_ bv100 32))))
(assert
 (= t_1 (_ bv46 32)))
(assert
 (let (($x1581 (= t_2 (_ bv99 32))))
 (not $x1581)))
(assert
 (= t_1 (_ bv46 32)))
(assert
 (let (($x977 (= t_2 (_ bv46 32))))
 (not $x977)))
(assert
 (= t_0 (_ bv35 32)))
(assert
 (= t_1 (_ bv46 32)))
(assert
 (let (($x977 (= t_2 (_ bv46 32))))
 (not $x977)))
(assert
 (let (($x673 (= t_2 (_ bv109 32))))
 (not $x673)))
(assert
 (= t_0 (_ bv35 32)))
(assert
 (= t_1 (_ bv46 32)))
(assert
 (let (($x977 (= t_2 (_ bv46 32))))
 (not $x977)))
(assert
 (let (($x511 (= t_2 (_ bv112 32))))
 (not $x511)))
(assert
 (= t_0 (_ bv35 32)))
(assert
 (= t_1 (_ bv46 32)))
(assert
 (let (($x977 (= t_2 (_ bv46 32))))
 (not $x977)))
(assert
 (= t_2 (_ bv10 32)))
(assert
 (let (($x1184 (and (= t_0 t_0) (= t_1 t_1) (= t_2 t_2))))
(not $x1184)))
(check-sat)
