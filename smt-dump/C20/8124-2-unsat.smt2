(set-logic ALL)
; benchmark generated from python API
(set-info :status unknown)
(declare-fun t_0 () (_ BitVec 32))
(declare-fun t_1 () (_ BitVec 32))
(declare-fun t_2 () (_ BitVec 32))
(declare-fun t_3 () (_ BitVec 32))
(assert
 (bvule t_0 (_ bv1114111 32)))
(assert
 (bvule t_1 (_ bv1114111 32)))
(assert
 (bvule t_2 (_ bv1114111 32)))
(assert
 (bvule t_3 (_ bv1114111 32)))
(assert
 (= t_0 (_ bv46 32)))
(assert
 (let (($x2201 (= t_1 (_ bv46 32))))
 (not $x2201)))
(assert
 (not (= t_0 (_ bv35 32))))
(assert
 (not (= t_0 (_ bv35 32))))
(assert
 (not (= t_0 (_ bv35 32))))
(assert
 (not (= t_0 (_ bv35 32))))
(assert
 (let (($x1508 (= t_3 (_ bv10 32))))
 (not $x1508)))
(assert
 (not (= t_2 (_ bv10 32))))
(assert
 (let (($x318 (= t_1 (_ bv10 32))))
 (not $x318)))
(assert
 (not (= t_0 (_ bv10 32))))
(assert
 (not (= t_0 (_ bv10 32))))
(assert
 (let (($x2201 (= t_1 (_ bv46 32))))
 (not $x2201)))
(assert
 (let (($x1969 (= t_1 (_ bv35 32))))
 (not $x1969)))
(assert
 (let (($x1969 (= t_1 (_ bv35 32))))
 (not $x1969)))
(assert
 (let (($x1969 (= t_1 (_ bv35 32))))
 (not $x1969)))
(assert
 (let (($x1969 (= t_1 (_ bv35 32))))
 (not $x1969)))
(assert
 (let (($x1508 (= t_3 (_ bv10 32))))
 (not $x1508)))
(assert
 (not (= t_2 (_ bv10 32))))
(assert
 (let (($x318 (= t_1 (_ bv10 32))))
 (not $x318)))
(assert
 (let (($x318 (= t_1 (_ bv10 32))))
 (not $x318)))
(assert
 (= t_2 (_ bv46 32)))
(assert
 (let (($x516 (= t_3 (_ bv46 32))))
 (not $x516)))
(assert
 (not (= t_2 (_ bv35 32))))
(assert
 (not (= t_2 (_ bv35 32))))
(assert
 (not (= t_2 (_ bv35 32))))
(assert
 (not (= t_2 (_ bv35 32))))
(assert
 (let (($x1508 (= t_3 (_ bv10 32))))
 (not $x1508)))
(assert
 (not (= t_2 (_ bv10 32))))
(assert
 (not (= t_2 (_ bv10 32))))
(assert
 (let (($x516 (= t_3 (_ bv46 32))))
 (not $x516)))
(assert
 (= t_3 (_ bv35 32)))
(assert
 (= t_3 (_ bv35 32)))
(assert
 (= t_3 (_ bv35 32)))
(assert
 (= t_3 (_ bv35 32)))
(assert
 (let (($x1508 (= t_3 (_ bv10 32))))
 (not $x1508)))
(assert
 (let (($x1508 (= t_3 (_ bv10 32))))
 (not $x1508)))
(assert
 (let (($x2364 (and (= t_0 t_0) (= t_1 t_1) (= t_2 t_2) (= t_3 t_3))))
(not $x2364)))
(check-sat)
