(set-logic ALL)
; benchmark generated from python API
(set-info :status unknown)
(declare-fun t_0 () (_ BitVec 32))
(declare-fun t_1 () (_ BitVec 32))
(declare-fun t_2 () (_ BitVec 32))
(declare-fun t_3 () (_ BitVec 32))
(assert
 (bvule t_0 (_ bv1114111 32)))
(assert
 (bvule t_1 (_ bv1114111 32)))
(assert
 (bvule t_2 (_ bv1114111 32)))
(assert
 (bvule t_3 (_ bv1114111 32)))
(assert
 (= t_0 (_ bv46 32)))
(assert
 (let (($x1344 (= t_1 (_ bv46 32))))
 (not $x1344)))
(assert
 (not (= t_0 (_ bv35 32))))
(assert
 (not (= t_0 (_ bv35 32))))
(assert
 (not (= t_0 (_ bv35 32))))
(assert
 (not (= t_0 (_ bv35 32))))
(assert
 (let (($x1718 (= t_3 (_ bv10 32))))
 (not $x1718)))
(assert
 (let (($x1508 (= t_2 (_ bv10 32))))
 (not $x1508)))
(assert
 (let (($x1588 (= t_1 (_ bv10 32))))
 (not $x1588)))
(assert
 (not (= t_0 (_ bv10 32))))
(assert
 (not (= t_0 (_ bv10 32))))
(assert
 (let (($x1344 (= t_1 (_ bv46 32))))
 (not $x1344)))
(assert
 (let (($x1407 (= t_1 (_ bv35 32))))
 (not $x1407)))
(assert
 (let (($x1407 (= t_1 (_ bv35 32))))
 (not $x1407)))
(assert
 (let (($x1407 (= t_1 (_ bv35 32))))
 (not $x1407)))
(assert
 (let (($x1407 (= t_1 (_ bv35 32))))
 (not $x1407)))
(assert
 (let (($x1718 (= t_3 (_ bv10 32))))
 (not $x1718)))
(assert
 (let (($x1508 (= t_2 (_ bv10 32))))
 (not $x1508)))
(assert
 (let (($x1588 (= t_1 (_ bv10 32))))
 (not $x1588)))
(assert
 (let (($x1588 (= t_1 (_ bv10 32))))
 (not $x1588)))
(assert
 (let (($x1969 (= t_2 (_ bv46 32))))
 (not $x1969)))
(assert
 (let (($x1971 (= t_2 (_ bv35 32))))
 (not $x1971)))
(assert
 (let (($x1971 (= t_2 (_ bv35 32))))
 (not $x1971)))
(assert
 (let (($x1971 (= t_2 (_ bv35 32))))
 (not $x1971)))
(assert
 (let (($x1971 (= t_2 (_ bv35 32))))
 (not $x1971)))
(assert
 (let (($x1718 (= t_3 (_ bv10 32))))
 (not $x1718)))
(assert
 (let (($x1508 (= t_2 (_ bv10 32))))
 (not $x1508)))
(assert
 (let (($x1508 (= t_2 (_ bv10 32))))
 (not $x1508)))
(assert
 (let (($x2417 (= t_3 (_ bv46 32))))
 (not $x2417)))
(assert
 (let (($x663 (= t_3 (_ bv35 32))))
 (not $x663)))
(assert
 (let (($x663 (= t_3 (_ bv35 32))))
 (not $x663)))
(assert
 (let (($x663 (= t_3 (_ bv35 32))))
 (not $x663)))
(assert
 (let (($x663 (= t_3 (_ bv35 32))))
 (not $x663)))
(assert
 (let (($x1718 (= t_3 (_ bv10 32))))
 (not $x1718)))
(assert
 (let (($x1718 (= t_3 (_ bv10 32))))
 (not $x1718)))
(assert
 (let (($x1963 (and (= t_0 t_0) (= t_1 t_1) (= t_2 t_2) (= t_3 t_3))))
(not $x1963)))
(check-sat)
