(set-logic ALL)
; benchmark generated from python API
(set-info :status unknown)
(declare-fun t_0 () (_ BitVec 32))
(assert
 (bvule t_0 (_ bv1114111 32)))
(assert
 (let (($x695 (= t_0 (_ bv46 32))))
 (not $x695)))
(assert
 (let (($x156 (= t_0 (_ bv35 32))))
 (not $x156)))
(assert
 (let (($x156 (= t_0 (_ bv35 32))))
 (not $x156)))
(assert
 (let (($x156 (= t_0 (_ bv35 32))))
 (not $x156)))
(assert
 (let (($x156 (= t_0 (_ bv35 32))))
 (not $x156)))
(assert
 (= t_0 (_ bv10 32)))
(assert
 (let (($x1322 (= t_0 t_0)))
(not $x1322)))
(check-sat)
