(set-logic ALL)
; benchmark generated from python API
(set-info :status unknown)
(declare-fun t_0 () (_ BitVec 32))
(declare-fun t_1 () (_ BitVec 32))
(declare-fun t_2 () (_ BitVec 32))
(assert
 (bvule t_0 (_ bv1114111 32)))
(assert
 (bvule t_1 (_ bv1114111 32)))
(assert
 (bvule t_2 (_ bv1114111 32)))
(assert
 (let (($x102 (= t_0 (_ bv46 32))))
 (not $x102)))
(assert
 (let (($x267 (= t_0 (_ bv35 32))))
 (not $x267)))
(assert
 (let (($x267 (= t_0 (_ bv35 32))))
 (not $x267)))
(assert
 (let (($x267 (= t_0 (_ bv35 32))))
 (not $x267)))
(assert
 (let (($x267 (= t_0 (_ bv35 32))))
 (not $x267)))
(assert
 (let (($x1122 (= t_2 (_ bv10 32))))
 (not $x1122)))
(assert
 (not (= t_1 (_ bv10 32))))
(assert
 (let (($x1322 (= t_0 (_ bv10 32))))
 (not $x1322)))
(assert
 (let (($x1322 (= t_0 (_ bv10 32))))
 (not $x1322)))
(assert
 (= t_1 (_ bv46 32)))
(assert
 (let (($x855 (= t_2 (_ bv46 32))))
 (not $x855)))
(assert
 (not (= t_1 (_ bv35 32))))
(assert
 (not (= t_1 (_ bv35 32))))
(assert
 (not (= t_1 (_ bv35 32))))
(assert
 (not (= t_1 (_ bv35 32))))
(assert
 (let (($x1122 (= t_2 (_ bv10 32))))
 (not $x1122)))
(assert
 (not (= t_1 (_ bv10 32))))
(assert
 (not (= t_1 (_ bv10 32))))
(assert
 (let (($x855 (= t_2 (_ bv46 32))))
 (not $x855)))
(assert
 (let (($x1851 (= t_2 (_ bv35 32))))
 (not $x1851)))
(assert
 (let (($x1851 (= t_2 (_ bv35 32))))
 (not $x1851)))
(assert
 (let (($x1851 (= t_2 (_ bv35 32))))
 (not $x1851)))
(assert
 (let (($x1851 (= t_2 (_ bv35 32))))
 (not $x1851)))
(assert
 (let (($x1122 (= t_2 (_ bv10 32))))
 (not $x1122)))
(assert
 (let (($x1122 (= t_2 (_ bv10 32))))
 (not $x1122)))
(assert
 (let (($x53 (and (= t_0 t_0) (= t_1 t_1) (= t_2 t_2))))
(not $x53)))
(check-sat)
