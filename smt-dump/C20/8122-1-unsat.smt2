(set-logic ALL)
; benchmark generated from python API
(set-info :status unknown)
(declare-fun t_0 () (_ BitVec 32))
(declare-fun t_1 () (_ BitVec 32))
(declare-fun t_2 () (_ BitVec 32))
(assert
 (bvule t_0 (_ bv1114111 32)))
(assert
 (bvule t_1 (_ bv1114111 32)))
(assert
 (bvule t_2 (_ bv1114111 32)))
(assert
 (not (= t_0 (_ bv46 32))))
(assert
 (= t_0 (_ bv35 32)))
(assert
 (not (= t_1 (_ bv100 32))))
(assert
 (= t_1 (_ bv46 32)))
(assert
 (let (($x586 (= t_2 (_ bv99 32))))
 (not $x586)))
(assert
 (= t_1 (_ bv46 32)))
(assert
 (let (($x1122 (= t_2 (_ bv46 32))))
 (not $x1122)))
(assert
 (= t_0 (_ bv35 32)))
(assert
 (= t_1 (_ bv46 32)))
(assert
 (let (($x1122 (= t_2 (_ bv46 32))))
 (not $x1122)))
(assert
 (= t_2 (_ bv109 32)))
(assert
 (= t_0 (_ bv35 32)))
(assert
 (= t_1 (_ bv46 32)))
(assert
 (let (($x1122 (= t_2 (_ bv46 32))))
 (not $x1122)))
(assert
 (not (= t_2 (_ bv112 32))))
(assert
 (= t_0 (_ bv35 32)))
(assert
 (= t_1 (_ bv46 32)))
(assert
 (let (($x1122 (= t_2 (_ bv46 32))))
 (not $x1122)))
(assert
 (not (= t_2 (_ bv10 32))))
(assert
 (not (= t_1 (_ bv10 32))))
(assert
 (not (= t_0 (_ bv10 32))))
(assert
 (not (= t_0 (_ bv10 32))))
(assert
 (= t_1 (_ bv46 32)))
(assert
 (let (($x1122 (= t_2 (_ bv46 32))))
 (not $x1122)))
(assert
 (not (= t_1 (_ bv35 32))))
(assert
 (not (= t_1 (_ bv35 32))))
(assert
 (not (= t_1 (_ bv35 32))))
(assert
 (not (= t_1 (_ bv35 32))))
(assert
 (not (= t_2 (_ bv10 32))))
(assert
 (not (= t_1 (_ bv10 32))))
(assert
 (not (= t_1 (_ bv10 32))))
(assert
 (let (($x1122 (= t_2 (_ bv46 32))))
 (not $x1122)))
(assert
 (not (= t_2 (_ bv35 32))))
(assert
 (not (= t_2 (_ bv35 32))))
(assert
 (not (= t_2 (_ bv35 32))))
(assert
 (not (= t_2 (_ bv35 32))))
(assert
 (not (= t_2 (_ bv10 32))))
(assert
 (not (= t_2 (_ bv10 32))))
(assert
 (let (($x666 (and (= t_0 t_0) (= t_1 t_1) (= t_2 t_2))))
(not $x666)))
(check-sat)
