(set-logic ALL)
; benchmark generated from python API
(set-info :status unknown)
(declare-fun t_0 () (_ BitVec 32))
(declare-fun t_1 () (_ BitVec 32))
(declare-fun t_2 () (_ BitVec 32))
(declare-fun t_3 () (_ BitVec 32))
(assert
 (bvule t_0 (_ bv1114111 32)))
(assert
 (bvule t_1 (_ bv1114111 32)))
(assert
 (bvule t_2 (_ bv1114111 32)))
(assert
 (bvule t_3 (_ bv1114111 32)))
(assert
 (= t_0 (_ bv46 32)))
(assert
 (not (= t_1 (_ bv46 32))))
(assert
 (not (= t_0 (_ bv35 32))))
(assert
 (not (= t_0 (_ bv35 32))))
(assert
 (not (= t_0 (_ bv35 32))))
(assert
 (not (= t_0 (_ bv35 32))))
(assert
 (let (($x238 (= t_3 (_ bv10 32))))
 (not $x238)))
(assert
 (not (= t_2 (_ bv10 32))))
(assert
 (not (= t_1 (_ bv10 32))))
(assert
 (not (= t_0 (_ bv10 32))))
(assert
 (not (= t_0 (_ bv10 32))))
(assert
 (not (= t_1 (_ bv46 32))))
(assert
 (= t_1 (_ bv35 32)))
(assert
 (not (= t_2 (_ bv100 32))))
(assert
 (= t_2 (_ bv46 32)))
(assert
 (let (($x1871 (= t_3 (_ bv99 32))))
 (not $x1871)))
(assert
 (= t_2 (_ bv46 32)))
(assert
 (= t_3 (_ bv46 32)))
(assert
 (= t_1 (_ bv35 32)))
(assert
 (= t_2 (_ bv46 32)))
(assert
 (= t_3 (_ bv46 32)))
(assert
 (not (= t_3 (_ bv109 32))))
(assert
 (= t_1 (_ bv35 32)))
(assert
 (= t_2 (_ bv46 32)))
(assert
 (= t_3 (_ bv46 32)))
(assert
 (not (= t_3 (_ bv112 32))))
(assert
 (= t_1 (_ bv35 32)))
(assert
 (= t_2 (_ bv46 32)))
(assert
 (= t_3 (_ bv46 32)))
(assert
 (let (($x238 (= t_3 (_ bv10 32))))
 (not $x238)))
(assert
 (not (= t_2 (_ bv10 32))))
(assert
 (not (= t_1 (_ bv10 32))))
(assert
 (not (= t_1 (_ bv10 32))))
(assert
 (= t_2 (_ bv46 32)))
(assert
 (= t_3 (_ bv46 32)))
(assert
 (not (= t_2 (_ bv35 32))))
(assert
 (not (= t_2 (_ bv35 32))))
(assert
 (not (= t_2 (_ bv35 32))))
(assert
 (not (= t_2 (_ bv35 32))))
(assert
 (let (($x238 (= t_3 (_ bv10 32))))
 (not $x238)))
(assert
 (not (= t_2 (_ bv10 32))))
(assert
 (not (= t_2 (_ bv10 32))))
(assert
 (= t_3 (_ bv46 32)))
(assert
 (not (= t_3 (_ bv35 32))))
(assert
 (not (= t_3 (_ bv35 32))))
(assert
 (not (= t_3 (_ bv35 32))))
(assert
 (not (= t_3 (_ bv35 32))))
(assert
 (let (($x238 (= t_3 (_ bv10 32))))
 (not $x238)))
(assert
 (let (($x238 (= t_3 (_ bv10 32))))
 (not $x238)))
(assert
 (let (($x2122 (and (= t_0 t_0) (= t_1 t_1) (= t_2 t_2) (= t_3 t_3))))
(not $x2122)))
(check-sat)
