(set-logic ALL)
; benchmark generated from python API
(set-info :status unknown)
(declare-fun t_0 () (_ BitVec 32))
(declare-fun t_1 () (_ BitVec 32))
(declare-fun t_2 () (_ BitVec 32))
(assert
 (bvule t_0 (_ bv1114111 32)))
(assert
 (bvule t_1 (_ bv1114111 32)))
(assert
 (bvule t_2 (_ bv1114111 32)))
(assert
 (not (= t_0 (_ bv46 32))))
(assert
 (not (= t_0 (_ bv35 32))))
(assert
 (not (= t_0 (_ bv35 32))))
(assert
 (not (= t_0 (_ bv35 32))))
(assert
 (not (= t_0 (_ bv35 32))))
(assert
 (let (($x1588 (= t_2 (_ bv10 32))))
 (not $x1588)))
(assert
 (let (($x855 (= t_1 (_ bv10 32))))
 (not $x855)))
(assert
 (= t_0 (_ bv10 32)))
(assert
 (let (($x366 (= t_1 (_ bv46 32))))
 (not $x366)))
(assert
 (let (($x1241 (= t_1 (_ bv35 32))))
 (not $x1241)))
(assert
 (let (($x1241 (= t_1 (_ bv35 32))))
 (not $x1241)))
(assert
 (let (($x1241 (= t_1 (_ bv35 32))))
 (not $x1241)))
(assert
 (let (($x1241 (= t_1 (_ bv35 32))))
 (not $x1241)))
(assert
 (let (($x1588 (= t_2 (_ bv10 32))))
 (not $x1588)))
(assert
 (let (($x855 (= t_1 (_ bv10 32))))
 (not $x855)))
(assert
 (let (($x855 (= t_1 (_ bv10 32))))
 (not $x855)))
(assert
 (let (($x318 (= t_2 (_ bv46 32))))
 (not $x318)))
(assert
 (= t_2 (_ bv35 32)))
(assert
 (= t_2 (_ bv35 32)))
(assert
 (= t_2 (_ bv35 32)))
(assert
 (= t_2 (_ bv35 32)))
(assert
 (let (($x1588 (= t_2 (_ bv10 32))))
 (not $x1588)))
(assert
 (let (($x1588 (= t_2 (_ bv10 32))))
 (not $x1588)))
(assert
 (let (($x1892 (and (= t_0 t_0) (= t_1 t_1) (= t_2 t_2))))
(not $x1892)))
(check-sat)
