(set-logic ALL)
; benchmark generated from python API
(set-info :status unknown)
(declare-fun t_0 () (_ BitVec 32))
(declare-fun t_1 () (_ BitVec 32))
(declare-fun t_2 () (_ BitVec 32))
(assert
 (bvule t_0 (_ bv1114111 32)))
(assert
 (bvule t_1 (_ bv1114111 32)))
(assert
 (bvule t_2 (_ bv1114111 32)))
(assert
 (not (= t_0 (_ bv46 32))))
(assert
 (= t_0 (_ bv35 32)))
(assert
 (let (($x511 (= t_1 (_ bv100 32))))
 (not $x511)))
(assert
 (let (($x1581 (= t_1 (_ bv46 32))))
 (not $x1581)))
(assert
 (let (($x1581 (= t_1 (_ bv46 32))))
 (not $x1581)))
(assert
 (= t_0 (_ bv35 32)))
(assert
 (let (($x1581 (= t_1 (_ bv46 32))))
 (not $x1581)))
(assert
 (= t_0 (_ bv35 32)))
(assert
 (let (($x1581 (= t_1 (_ bv46 32))))
 (not $x1581)))
(assert
 (= t_0 (_ bv35 32)))
(assert
 (let (($x1581 (= t_1 (_ bv46 32))))
 (not $x1581)))
(assert
 (= t_2 (_ bv10 32)))
(assert
 (let (($x2419 (and (= t_0 t_0) (= t_1 t_1) (= t_2 t_2))))
(not $x2419)))
(check-sat)
