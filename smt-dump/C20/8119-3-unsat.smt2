(set-logic ALL)
; benchmark generated from python API
(set-info :status unknown)
(declare-fun t_0 () (_ BitVec 32))
(declare-fun t_1 () (_ BitVec 32))
(declare-fun t_2 () (_ BitVec 32))
(assert
 (bvule t_0 (_ bv1114111 32)))
(assert
 (bvule t_1 (_ bv1114111 32)))
(assert
 (bvule t_2 (_ bv1114111 32)))
(assert
 (let (($x371 (= t_0 (_ bv46 32))))
 (not $x371)))
(assert
 (let (($x1790 (= t_0 (_ bv35 32))))
 (not $x1790)))
(assert
 (let (($x1790 (= t_0 (_ bv35 32))))
 (not $x1790)))
(assert
 (let (($x1790 (= t_0 (_ bv35 32))))
 (not $x1790)))
(assert
 (let (($x1790 (= t_0 (_ bv35 32))))
 (not $x1790)))
(assert
 (let (($x1971 (= t_2 (_ bv10 32))))
 (not $x1971)))
(assert
 (= t_1 (_ bv10 32)))
(assert
 (let (($x646 (= t_2 (_ bv46 32))))
 (not $x646)))
(assert
 (= t_2 (_ bv35 32)))
(assert
 (= t_2 (_ bv35 32)))
(assert
 (= t_2 (_ bv35 32)))
(assert
 (= t_2 (_ bv35 32)))
(assert
 (let (($x1971 (= t_2 (_ bv10 32))))
 (not $x1971)))
(assert
 (let (($x1971 (= t_2 (_ bv10 32))))
 (not $x1971)))
(assert
 (let (($x864 (and (= t_0 t_0) (= t_1 t_1) (= t_2 t_2))))
(not $x864)))
(check-sat)
