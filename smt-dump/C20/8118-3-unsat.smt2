(set-logic ALL)
; benchmark generated from python API
(set-info :status unknown)
(declare-fun t_0 () (_ BitVec 32))
(declare-fun t_1 () (_ BitVec 32))
(declare-fun t_2 () (_ BitVec 32))
(declare-fun t_3 () (_ BitVec 32))
(assert
 (bvule t_0 (_ bv1114111 32)))
(assert
 (bvule t_1 (_ bv1114111 32)))
(assert
 (bvule t_2 (_ bv1114111 32)))
(assert
 (bvule t_3 (_ bv1114111 32)))
(assert
 (= t_0 (_ bv46 32)))
(assert
 (= t_1 (_ bv46 32)))
(assert
 (= t_2 (_ bv46 32)))
(assert
 (let (($x1241 (= t_3 (_ bv10 32))))
 (not $x1241)))
(assert
 (not (= t_0 (_ bv35 32))))
(assert
 (not (= t_0 (_ bv35 32))))
(assert
 (not (= t_0 (_ bv35 32))))
(assert
 (not (= t_0 (_ bv35 32))))
(assert
 (let (($x1241 (= t_3 (_ bv10 32))))
 (not $x1241)))
(assert
 (not (= t_2 (_ bv10 32))))
(assert
 (not (= t_1 (_ bv10 32))))
(assert
 (not (= t_0 (_ bv10 32))))
(assert
 (not (= t_0 (_ bv10 32))))
(assert
 (= t_1 (_ bv46 32)))
(assert
 (= t_2 (_ bv46 32)))
(assert
 (let (($x1344 (= t_3 (_ bv46 32))))
 (not $x1344)))
(assert
 (not (= t_1 (_ bv35 32))))
(assert
 (not (= t_1 (_ bv35 32))))
(assert
 (not (= t_1 (_ bv35 32))))
(assert
 (not (= t_1 (_ bv35 32))))
(assert
 (let (($x1241 (= t_3 (_ bv10 32))))
 (not $x1241)))
(assert
 (not (= t_2 (_ bv10 32))))
(assert
 (not (= t_1 (_ bv10 32))))
(assert
 (not (= t_1 (_ bv10 32))))
(assert
 (= t_2 (_ bv46 32)))
(assert
 (let (($x1344 (= t_3 (_ bv46 32))))
 (not $x1344)))
(assert
 (not (= t_2 (_ bv35 32))))
(assert
 (not (= t_2 (_ bv35 32))))
(assert
 (not (= t_2 (_ bv35 32))))
(assert
 (not (= t_2 (_ bv35 32))))
(assert
 (let (($x1241 (= t_3 (_ bv10 32))))
 (not $x1241)))
(assert
 (not (= t_2 (_ bv10 32))))
(assert
 (not (= t_2 (_ bv10 32))))
(assert
 (let (($x1344 (= t_3 (_ bv46 32))))
 (not $x1344)))
(assert
 (= t_3 (_ bv35 32)))
(assert
 (= t_3 (_ bv35 32)))
(assert
 (= t_3 (_ bv35 32)))
(assert
 (= t_3 (_ bv35 32)))
(assert
 (let (($x1241 (= t_3 (_ bv10 32))))
 (not $x1241)))
(assert
 (let (($x1241 (= t_3 (_ bv10 32))))
 (not $x1241)))
(assert
 (let (($x924 (and (= t_0 t_0) (= t_1 t_1) (= t_2 t_2) (= t_3 t_3))))
(not $x924)))
(check-sat)
