(set-logic ALL)
; benchmark generated from python API
(set-info :status unknown)
(declare-fun t_0 () (_ BitVec 32))
(declare-fun t_1 () (_ BitVec 32))
(declare-fun t_2 () (_ BitVec 32))
(assert
 (bvule t_0 (_ bv1114111 32)))
(assert
 (bvule t_1 (_ bv1114111 32)))
(assert
 (bvule t_2 (_ bv1114111 32)))
(assert
 (not (= t_0 (_ bv46 32))))
(assert
 (= t_0 (_ bv35 32)))
(assert
 (let (($x1258 (= t_1 (_ bv100 32))))
 (not $x1258)))
(assert
 (let (($x1508 (= t_1 (_ bv46 32))))
 (not $x1508)))
(assert
 (let (($x1508 (= t_1 (_ bv46 32))))
 (not $x1508)))
(assert
 (= t_0 (_ bv35 32)))
(assert
 (let (($x1508 (= t_1 (_ bv46 32))))
 (not $x1508)))
(assert
 (= t_0 (_ bv35 32)))
(assert
 (let (($x1508 (= t_1 (_ bv46 32))))
 (not $x1508)))
(assert
 (= t_0 (_ bv35 32)))
(assert
 (let (($x1508 (= t_1 (_ bv46 32))))
 (not $x1508)))
(assert
 (let (($x1588 (= t_2 (_ bv10 32))))
 (not $x1588)))
(assert
 (let (($x855 (= t_1 (_ bv10 32))))
 (not $x855)))
(assert
 (not (= t_0 (_ bv10 32))))
(assert
 (not (= t_0 (_ bv10 32))))
(assert
 (let (($x1508 (= t_1 (_ bv46 32))))
 (not $x1508)))
(assert
 (let (($x1407 (= t_1 (_ bv35 32))))
 (not $x1407)))
(assert
 (let (($x1407 (= t_1 (_ bv35 32))))
 (not $x1407)))
(assert
 (let (($x1407 (= t_1 (_ bv35 32))))
 (not $x1407)))
(assert
 (let (($x1407 (= t_1 (_ bv35 32))))
 (not $x1407)))
(assert
 (let (($x1588 (= t_2 (_ bv10 32))))
 (not $x1588)))
(assert
 (let (($x855 (= t_1 (_ bv10 32))))
 (not $x855)))
(assert
 (let (($x855 (= t_1 (_ bv10 32))))
 (not $x855)))
(assert
 (let (($x1969 (= t_2 (_ bv46 32))))
 (not $x1969)))
(assert
 (let (($x1563 (= t_2 (_ bv35 32))))
 (not $x1563)))
(assert
 (let (($x1563 (= t_2 (_ bv35 32))))
 (not $x1563)))
(assert
 (let (($x1563 (= t_2 (_ bv35 32))))
 (not $x1563)))
(assert
 (let (($x1563 (= t_2 (_ bv35 32))))
 (not $x1563)))
(assert
 (let (($x1588 (= t_2 (_ bv10 32))))
 (not $x1588)))
(assert
 (let (($x1588 (= t_2 (_ bv10 32))))
 (not $x1588)))
(assert
 (let (($x1514 (and (= t_0 t_0) (= t_1 t_1) (= t_2 t_2))))
(not $x1514)))
(check-sat)
