"""C02 -- the writer emits only spec-conformant, canonical DiffX bytes."""
import json
import re

import z3

from sx import instrument
from sx.core import (Ctx, conj, lift, mk_seq, model_bytes, model_str, seq_eq, sym_bytes, sym_str)
from sx.run import Ob, ok, skip, verdict, viol
from sx.streams import SymStream

from harness.rw import E8, E10, Script, prefix_for, suffix_for

ASSUMPTIONS = [
    'one content section symbolic per run, containers around it concrete (each of the nine section ids is reached, with '
    'declared and inherited encodings); histories of any length: C04 writer step + C09',
    'canonical JSON text is taken from json.dumps(indent=4, sort_keys=True, separators=(",", ": ")) (json is outside '
    'the model); metadata values come from a concrete catalogue',
]

HEADER_GRAMMAR = re.compile(rb'#\.{0,3}(?:diffx|preamble|meta|change|file|diff):'
                            rb'(?: [A-Za-z][A-Za-z0-9_-]*=[A-Za-z0-9/._-]+(?:, [A-Za-z][A-Za-z0-9_-]*=[A-Za-z0-9/._-]+)*)?\n')
METAS = [{'a': 1}, {'path': 'f', 'z': [1, {'y': None}], 'é': 'ü€'}, {'nl': 'a\nb', 'hdr': '#..file:'}]


def setup():
    instrument.install('ref')


def ref_bytes(script):
    """REF_WRITE folded over a call script: the canonical serialisation"""
    import ref.spec as S
    out = S.header_bytes('diffx', {'encoding': script.main_encoding, 'version': '1.0'})
    chain = [script.main_encoding]
    for sid, fn, a, k in script.calls:
        lvl = S.CONTAINER_LEVEL[sid]
        own = k.get('encoding')
        if fn in ('new_change', 'new_file'):
            chain = chain[:lvl] + [own]
            out = out + S.header_bytes(sid, {'encoding': own})
            continue
        eff = S.effective_encoding(chain[:lvl + 1], own, sid)
        if fn == 'write_preamble':
            indent = k.get('indent', 4)
            data, kind = S.write_text_content(a[0], eff, k.get('line_endings'), indent)
            opts = {'encoding': own, 'indent': indent, 'length': len(data), 'line_endings': kind,
                    'mimetype': k.get('mimetype')}
        elif fn == 'write_meta':
            from sx import instrument as _ins
            txt = _ins.h_call(json.dumps, a[0], indent=4, separators=(',', ': '), sort_keys=True)
            data, kind = S.write_text_content(txt, eff, None, None)
            opts = {'encoding': own, 'format': 'json', 'length': len(data)}
        else:
            data, kind = S.write_bytes_content(a[0], own, k.get('line_endings'))
            opts = {'encoding': own, 'length': len(data), 'line_endings': kind, 'type': k.get('diff_type')}
        out = out + S.header_bytes(sid, opts) + data
    return out


def _run(ctx, script, wit):
    from pydiffx.writer import DiffXWriter
    st = SymStream()
    try:
        script.run(DiffXWriter, st)
    except UnicodeEncodeError:
        return skip('text not encodable in the effective codec (writer rejects; C09)'), None
    got = st.value()
    try:
        exp = ref_bytes(script)
    except UnicodeEncodeError:
        return viol('writer-accepts-unencodable', wit(ctx.model())), None
    if len(got) != len(exp):
        m = ctx.model()
        return viol('length-differs', dict(wit(m), got=model_bytes(m, got), expected=model_bytes(m, exp))), None
    return got, exp


def _struct_props(got):
    """spec conformance that does not go through REF_WRITE: every header line is
    ASCII and in the grammar with sorted options; length frames the content"""
    props = []
    g = lift(got)
    data = g.el
    pos = 0
    n = len(data)
    while pos < n:
        # headers are concrete (only content is symbolic): read one line
        j = pos
        while j < n and isinstance(data[j], int) and data[j] != 10:
            j += 1
        if j >= n or not isinstance(data[j], int):
            props.append(('header-not-concrete-ascii', False))
            break
        line = bytes(data[pos:j + 1])
        props.append(('header-grammar', HEADER_GRAMMAR.fullmatch(line) is not None))
        keys = re.findall(rb'([A-Za-z][A-Za-z0-9_-]*)=', line)
        props.append(('options-sorted', keys == sorted(keys)))
        m = re.search(rb'length=([0-9]+)', line)
        pos = j + 1
        if m:
            pos += int(m.group(1))
            if pos > n:
                props.append(('length-exceeds-output', False))
    props.append(('length-frames-content', pos == n))
    return props


def ob_preamble(ctx, sid, N, encs, indents, les, mimetypes):
    own, main = ctx.pick('enc', encs)
    indent = ctx.pick('indent', indents)
    le = ctx.pick('line_endings', les)
    mt = ctx.pick('mimetype', mimetypes)
    anc = ctx.pick('change.enc', [None, 'utf-16-be']) if sid == '..preamble' else None
    n = ctx.choose(1, N, 'n')
    text = sym_str(ctx, 't', n)
    script = Script(main)
    if sid == '..preamble':
        script.add('.change', 'new_change', **({} if anc is None else {'encoding': anc}))
    kw = {}
    if own is not None:
        kw['encoding'] = own
    if indent != 'default':
        kw['indent'] = indent
    if le is not None:
        kw['line_endings'] = le
    if mt is not None:
        kw['mimetype'] = mt
    script.add(sid, 'write_preamble', text, **kw)
    wit = lambda m: {'kind': 'preamble', 'sid': sid, 'main': main, 'change_enc': anc, 'text': model_str(m, text), 'kw': kw}
    got, exp = _run(ctx, script, wit)
    if exp is None:
        return got
    props = [('bytes-equal-canonical-serialisation', seq_eq(got, exp))] + _struct_props(got)
    return verdict(ctx, props, witness=lambda m: dict(wit(m), got=model_bytes(m, got), expected=model_bytes(m, exp)),
                   sample=lambda m: dict(wit(m), out=model_bytes(m, got)))


def ob_diff(ctx, N, encs, les, types):
    own = ctx.pick('enc', encs)
    le = ctx.pick('line_endings', les)
    dt = ctx.pick('diff_type', types)
    fenc = ctx.pick('file.enc', [None, 'utf-16'])
    n = ctx.choose(1, N, 'n')
    content = sym_bytes(ctx, 'd', n)
    script = Script('utf-8').add('.change', 'new_change').add('..file', 'new_file', **({} if fenc is None else {'encoding': fenc}))
    script.add('...meta', 'write_meta', {'path': 'f'})
    kw = {}
    if own is not None:
        kw['encoding'] = own
    if le is not None:
        kw['line_endings'] = le
    if dt is not None:
        kw['diff_type'] = dt
    script.add('...diff', 'write_diff', content, **kw)
    wit = lambda m: {'kind': 'diff', 'file_enc': fenc, 'content': model_bytes(m, content), 'kw': kw}
    got, exp = _run(ctx, script, wit)
    if exp is None:
        return got
    props = [('bytes-equal-canonical-serialisation', seq_eq(got, exp))] + _struct_props(got)
    return verdict(ctx, props, witness=lambda m: dict(wit(m), got=model_bytes(m, got), expected=model_bytes(m, exp)),
                   sample=lambda m: dict(wit(m), out=model_bytes(m, got)))


def ob_meta(ctx, encs):
    sid = ctx.pick('sid', ['.meta', '..meta', '...meta'])
    own, main = ctx.pick('enc', encs)
    md = ctx.pick('meta', METAS)
    script = prefix_for(sid, Script(main))
    script.add(sid, 'write_meta', md, **({} if own is None else {'encoding': own}))
    wit = lambda m: {'kind': 'meta', 'sid': sid, 'main': main, 'meta': md, 'own': own}
    got, exp = _run(ctx, script, wit)
    if exp is None:
        return got
    props = [('bytes-equal-canonical-serialisation', seq_eq(got, exp))] + _struct_props(got)
    return verdict(ctx, props, witness=lambda m: dict(wit(m), got=model_bytes(m, got), expected=model_bytes(m, exp)),
                   sample=lambda m: wit(m))


def ob_meta_sym(ctx, encs, N):
    """metadata with a symbolic string / integer vs the canonical serialisation of the specification (4-space indent,
    sorted keys, ASCII-only escapes), byte for byte"""
    from harness.rw import sym_meta
    from sx.core import concretize_value
    sid = ctx.pick('sid', ['.meta', '..meta', '...meta'])
    own, main = ctx.pick('enc', encs)
    md = sym_meta(ctx, N)
    script = prefix_for(sid, Script(main))
    script.add(sid, 'write_meta', md, **({} if own is None else {'encoding': own}))
    wit = lambda m: {'kind': 'meta', 'sid': sid, 'main': main, 'meta': concretize_value(m, md), 'own': own}
    got, exp = _run(ctx, script, wit)
    if exp is None:
        return got
    props = [('bytes-equal-canonical-serialisation', seq_eq(got, exp))] + _struct_props(got)
    return verdict(ctx, props, witness=lambda m: dict(wit(m), got=model_bytes(m, got), expected=model_bytes(m, exp)),
                   sample=lambda m: wit(m))


def ob_history(ctx, K, encs, N):
    """container histories (each container declaring an encoding or not, symbolic probe preambles, non-ASCII
    metadata): the bytes equal the canonical serialisation, where every inheriting section is encoded with the
    nearest declaring *ancestor* (never a sibling)"""
    from harness.C01 import history_script
    script, probes, wit0 = history_script(ctx, K, encs, N)
    wit = lambda m: dict(wit0(m), main=script.main_encoding)
    got, exp = _run(ctx, script, wit)
    if exp is None:
        return got
    props = [('bytes-equal-canonical-serialisation', seq_eq(got, exp))] + _struct_props(got)
    return verdict(ctx, props, witness=lambda m: dict(wit(m), got=model_bytes(m, got), expected=model_bytes(m, exp)),
                   sample=lambda m: wit(m))


def _enc_configs(cat):
    return [(e, 'utf-8') for e in cat] + [(None, e) for e in cat]


def obligations(tier):
    quick = tier == 'quick'
    cat = E8 if quick else E10
    N = 3 if quick else 4
    obs = []
    for sid in ('.preamble', '..preamble'):
        obs.append(Ob('preamble[%s]' % sid, ob_preamble,
                      dict(sid=sid, N=N if sid == '.preamble' else N - 1, encs=_enc_configs(cat),
                           indents=['default', 0, 1] if quick else ['default', 0, 1, 3, None],
                           les=[None, 'unix', 'dos'], mimetypes=[None, 'text/plain'] if sid == '.preamble' else [None]),
                      must_reach=['DiffXWriter._prepare_content', 'DiffXWriter._write_section_header'], path_timeout=30,
                      desc='real writer vs REF_WRITE, byte for byte; %s text symbolic' % sid,
                      bounds={'text_len': [1, N], 'encodings': cat}))
    obs.append(Ob('diff', ob_diff, dict(N=N + 1, encs=[None] + cat, les=[None, 'unix', 'dos'], types=[None, 'text', 'binary']),
                  must_reach=['DiffXWriter.write_diff'], path_timeout=30,
                  desc='real writer vs REF_WRITE; diff bytes symbolic', bounds={'diff_len': [1, N + 1]}))
    obs.append(Ob('meta', ob_meta, dict(encs=_enc_configs(cat)), must_reach=['DiffXWriter.write_meta'],
                  desc='metadata catalogue x encodings x levels vs REF_WRITE', bounds={'catalogue': len(METAS)}))
    K = 4 if quick else 5
    obs.append(Ob('history[K<=%d]' % K, ob_history, dict(K=K, encs=['utf-16', 'latin-1'] if quick else ['utf-16', 'latin-1', 'utf-32-be'], N=1),
                  must_reach=['DiffXWriter._write_section_header'], path_timeout=30,
                  desc='container histories up to %d containers, each declaring an encoding or not, symbolic probe preambles: '
                       'bytes == REF_WRITE (inheritance from the nearest declaring ancestor)' % K, bounds={'containers': K}))
    NM = 1 if quick else 2
    menc = [(None, 'utf-8'), ('utf-16', 'utf-8'), (None, 'utf-32-be'), ('latin-1', 'utf-16'), (None, 'ascii')]
    if not quick:
        menc = menc + [('utf-8-sig', 'latin-1'), (None, 'utf-16-be'), ('utf-32', 'utf-8')]
    obs.append(Ob('meta[symbolic]', ob_meta_sym, dict(encs=menc, N=NM), must_reach=['DiffXWriter.write_meta'], path_timeout=30,
                  desc='metadata with a symbolic string of 1..%d arbitrary code points and a symbolic integer vs REF_WRITE '
                       '(JSON text from CPython\'s pure-Python encoder under instrumentation on both sides; the arguments '
                       'of the call are the writer\'s vs the specification\'s)' % NM,
                  bounds={'string_len': [1, NM], 'int': [-1, 1], 'encodings': len(menc)}))
    return obs


def validate(tier):
    """REF_WRITE reproduces the repository's own expected outputs (test_writer scenarios) natively"""
    import io
    from pydiffx.writer import DiffXWriter
    n = 0
    cases = [
        Script('utf-8').add('.preamble', 'write_preamble', 'Hello\nworld').add('.meta', 'write_meta', {'k': 'v'})
        .add('.change', 'new_change', encoding='utf-16').add('..preamble', 'write_preamble', 'hi', indent=2)
        .add('..meta', 'write_meta', {'a': [1, 2]}).add('..file', 'new_file').add('...meta', 'write_meta', {'path': 'x'})
        .add('...diff', 'write_diff', b'--- a\r\n+++ b\r\n', diff_type='text'),
        Script('utf-32').add('.change', 'new_change').add('..preamble', 'write_preamble', 'a\r\nb', line_endings='dos', indent=0,
                                                          mimetype='text/markdown')
        .add('..file', 'new_file', encoding='latin-1').add('...meta', 'write_meta', {'é': 1})
        .add('...diff', 'write_diff', b'x', encoding='utf-16', line_endings='unix'),
    ]
    for sc in cases:
        b = io.BytesIO()
        sc.run(DiffXWriter, b)
        assert b.getvalue() == ref_bytes(sc), (b.getvalue(), ref_bytes(sc))
        n += 1
    return n


def replay(ob, label, w):
    import io
    from pydiffx.writer import DiffXWriter
    kind = w['kind']
    if kind == 'preamble':
        script = Script(w['main'])
        if w['sid'] == '..preamble':
            script.add('.change', 'new_change', **({} if w['change_enc'] is None else {'encoding': w['change_enc']}))
        script.add(w['sid'], 'write_preamble', w['text'], **w['kw'])
    elif kind == 'diff':
        script = Script('utf-8').add('.change', 'new_change').add('..file', 'new_file', **({} if w['file_enc'] is None else {'encoding': w['file_enc']}))
        script.add('...meta', 'write_meta', {'path': 'f'}).add('...diff', 'write_diff', w['content'], **w['kw'])
    elif kind == 'history':
        script = Script(w['main_encoding'])
        sids = {'new_change': '.change', 'new_file': '..file', 'write_preamble': '..preamble', 'write_meta': '...meta', 'write_diff': '...diff'}
        for fn, a, k in w['calls']:
            script.add(sids[fn], fn, *a, **k)
    else:
        script = prefix_for(w['sid'], Script(w['main']))
        script.add(w['sid'], 'write_meta', w['meta'], **({} if w['own'] is None else {'encoding': w['own']}))
    b = io.BytesIO()
    try:
        script.run(DiffXWriter, b)
    except UnicodeEncodeError:
        return {'violated': False, 'error': 'writer rejects'}
    got = b.getvalue()
    try:
        exp = ref_bytes(script)
    except UnicodeEncodeError:
        return {'violated': True, 'signature': 'canonical:writer-accepts-unencodable', 'detail': repr(got)}
    if got != exp:
        return {'violated': True, 'signature': 'canonical:bytes-differ', 'detail': 'writer %r\nspec   %r' % (got, exp)}
    return {'violated': False}
