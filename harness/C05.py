"""C05 -- an object-model tree written then parsed gives back the same tree."""
import z3

from sx import instrument
from sx.core import (Ctx, PathTimeout, conj, lift, model_bytes, seq_eq, concretize_value)
from sx.instrument import value_eq
from sx.run import Ob, ok, skip, verdict, viol

from harness import dom
from harness.C02 import ref_bytes

ASSUMPTIONS = [
    'trees are built through the public constructors and typed attributes: one change, 1..2 files; exactly one section '
    '(main preamble, change preamble or the first diff) has symbolic content, all other sections are concrete and '
    'independently present/absent; per-section options (encoding, indent, line_endings, mimetype, diff type) enumerated',
    'trees whose serialisation raises (content not encodable in the effective codec) are outside the property',
    'metadata: concrete objects, and (focus file.meta) an object with a symbolic string and a symbolic integer; JSON text '
    'comes from CPython\'s pure-Python encoder/decoder under instrumentation (sx/jsonmodel.py)',
]


def setup():
    instrument.install('ref')


def ob_pipeline(ctx, N, nfiles, rich):
    from pydiffx import DiffX
    t = dom.build_tree(ctx, N, nfiles, rich)
    expected = dom.normalised(t)
    wit = lambda m: {'tree': dom.describe(m, t)}
    try:
        b = t.to_bytes()
    except UnicodeEncodeError:
        return skip('tree does not serialise (unencodable content)')
    except PathTimeout:
        raise
    except Exception as e:
        return viol('to_bytes-raised:%s' % type(e).__name__, dict(wit(ctx.model()), error=str(e)[:200]))
    try:
        canon = ref_bytes(dom.tree_script(t))
    except UnicodeEncodeError:
        return viol('serialised-unencodable', wit(ctx.model()))
    try:
        t2 = DiffX.from_bytes(b)
    except PathTimeout:
        raise
    except Exception as e:
        m = ctx.model()
        return viol('from_bytes-rejects-own-output:%s' % type(e).__name__, dict(wit(m), data=model_bytes(m, b), error=str(e)[:200]))
    got = dom.actual(t2)
    if [g[0] for g in got] != [e[0] for e in expected]:
        return viol('shape', wit(ctx.model()))
    props = [('bytes-are-canonical-serialisation', seq_eq(b, canon))]
    for (sid, o1, c1), (_, o2, c2) in zip(got, expected):
        props.append(('options[%s]' % sid, value_eq(o1, o2)))
        props.append(('content[%s]' % sid, value_eq(c1, c2)))
    return verdict(ctx, props, witness=lambda m: dict(wit(m), data=model_bytes(m, b)),
                   sample=lambda m: dict(wit(m), bytes=model_bytes(m, b)))


class RecordingWriter(object):
    """stands in for DiffXWriter (DiffXDOMWriter.writer_cls is the designed extension point)"""
    calls = None

    def __init__(self, stream, **kw):
        RecordingWriter.calls = [('init', (), kw)]

    def __getattr__(self, name):
        def call(*a, **k):
            RecordingWriter.calls.append((name, a, k))
        return call


def ob_calls(ctx, N):
    """DiffXDOMWriter with a recording writer: the call sequence is exactly REF_DOM_CALLS(tree)"""
    from pydiffx.dom.writer import DiffXDOMWriter
    t = dom.build_tree(ctx, N, 2, True)
    before = dom.actual(t)
    w = DiffXDOMWriter()
    w.writer_cls = RecordingWriter
    try:
        w.write_stream(t, object())
    except Exception as e:
        return viol('write_stream-raised:%s' % type(e).__name__, {'tree': dom.describe(ctx.model(), t)})
    sc = dom.tree_script(t)
    exp = [('init', (), {'encoding': sc.main_encoding, 'version': '1.0'})] + [(fn, a, k) for _, fn, a, k in sc.calls]
    got = RecordingWriter.calls
    if [c[0] for c in got] != [c[0] for c in exp]:
        return viol('call-sequence', {'tree': dom.describe(ctx.model(), t), 'got': [c[0] for c in got], 'expected': [c[0] for c in exp]})
    props = []
    for (fn, a, k), (_, ea, ek) in zip(got, exp):
        props.append(('args[%s]' % fn, value_eq(list(a), list(ea))))
        props.append(('kwargs[%s]' % fn, value_eq(dict(k), dict(ek))))
    props.append(('tree-unchanged-by-writing', value_eq(dom.actual(t), before)))
    return verdict(ctx, props, witness=lambda m: {'tree': dom.describe_actual(m, before), 'calls': True},
                   sample=lambda m: {'calls': [c[0] for c in got]})


def obligations(tier):
    quick = tier == 'quick'
    N = 3 if quick else 4
    return [
        Ob('pipeline', ob_pipeline, dict(N=N, nfiles=2, rich=not quick),
           must_reach=['DiffXDOMWriter.write_stream', 'DiffXDOMReader.parse', 'DiffXWriter._prepare_content',
                       'DiffXReader._read_content'], path_timeout=40,
           desc='DiffX.from_bytes(tree.to_bytes()) through the real object model, writer and reader: same shape, and '
                'section by section the same options and content after the documented normalisation; to_bytes equals '
                'REF_WRITE over the calls the tree implies', bounds={'text_len': [1, N], 'diff_len': [1, N + 1]}),
        Ob('writer-calls', ob_calls, dict(N=1), must_reach=['DiffXDOMWriter._write_section'],
           desc='DiffXDOMWriter.write_stream with a recording writer_cls: call sequence and arguments == REF_DOM_CALLS '
                '(empty sections skipped, option renames); the tree is not modified', bounds={'files': [1, 2]}),
    ]


def validate(tier):
    """the normalisation + REF_DOM_CALLS reproduce the repository's own from_bytes/to_bytes test trees natively"""
    from pydiffx import DiffX
    d = DiffX(preamble='Hi\nthere', meta={'a': 1})
    c = d.add_change(preamble='x', preamble_indent=2, meta={'b': 2}, encoding='utf-16')
    c.add_file(meta={'path': 'p'}, diff=b'--- a\n+++ b', diff_type='text')
    b = d.to_bytes()
    assert b == ref_bytes(dom.tree_script(d)), (b, ref_bytes(dom.tree_script(d)))
    t2 = DiffX.from_bytes(b)
    assert dom.actual(t2) == dom.normalised(d), (dom.actual(t2), dom.normalised(d))
    return 2


def replay(ob, label, w):
    from pydiffx import DiffX
    t = dom.rebuild(w['tree'])
    if w.get('calls'):
        from pydiffx.dom.writer import DiffXDOMWriter
        wr = DiffXDOMWriter()
        wr.writer_cls = RecordingWriter
        before = dom.actual(t)
        sc = dom.tree_script(t)
        wr.write_stream(t, object())
        exp = [('init', (), {'encoding': sc.main_encoding, 'version': '1.0'})] + [(fn, a, k) for _, fn, a, k in sc.calls]
        got = [(fn, tuple(a), dict(k)) for fn, a, k in RecordingWriter.calls]
        exp = [(fn, tuple(a), dict(k)) for fn, a, k in exp]
        if got != exp or dom.actual(t) != before:
            return {'violated': True, 'signature': 'dom-write:calls-differ', 'detail': '%r vs %r' % (got, exp)}
        return {'violated': False}
    expected = dom.normalised(t)
    try:
        b = t.to_bytes()
    except UnicodeEncodeError:
        return {'violated': False, 'error': 'does not serialise'}
    except Exception as e:
        return {'violated': True, 'signature': 'dom-roundtrip:to_bytes-raised:%s' % type(e).__name__, 'detail': str(e)}
    canon = ref_bytes(dom.tree_script(t))
    if b != canon:
        return {'violated': True, 'signature': 'dom-roundtrip:not-canonical', 'detail': '%r vs %r' % (b, canon)}
    try:
        t2 = DiffX.from_bytes(b)
    except Exception as e:
        return {'violated': True, 'signature': 'dom-roundtrip:rejects-own-output', 'detail': '%s: %s on %r' % (type(e).__name__, e, b)}
    if dom.actual(t2) != expected:
        return {'violated': True, 'signature': 'dom-roundtrip:tree-differs',
                'detail': 'parsed %r\nexpected %r\nbytes %r' % (dom.actual(t2), expected, b)}
    return {'violated': False}
