"""C15 -- newline and BOM handling depends on the codec, not on how its name is spelled."""
import codecs

import z3

from sx import codecnames, codecs_model
from sx.core import (Ctx, PathTimeout, SSeq, conj, disj, lift, mk_seq, model_bytes, model_str, neg, rng, seq_eq, sym_str)
from sx.regex import nfa_formula
from sx.run import Ob, ok, skip, verdict, viol
from sx.streams import SymStream

ASSUMPTIONS = [
    'the codec name is a symbolic str of bounded length over [A-Za-z0-9_.-] that Python\'s int() would not convert; name '
    'resolution runs an instrumented copy of the platform\'s encodings.normalize_encoding plus the platform alias table '
    '(lower-casing modelled per character)',
    'codecs in the bit-exact model (UTF-8/16/32 families, latin-1, ascii) get symbolic text; every other stateless text '
    'codec of the platform is exercised with concrete text through the real codec (only its newline bytes matter)',
    'stateless text codec = encode(a+b) == encode(a) + encode(b) without BOM on the probe strings, and decodable; '
    'stateful / non-text codecs (utf-7, iso2022_*, hz, idna, punycode, undefined, ...) are outside the property',
]


def stateless_info(info):
    """(is stateless text codec, BOM it emits)"""
    try:
        if not getattr(info, '_is_text_encoding', True):
            return False, b''
        bom = info.encode('')[0]
        a = info.encode('a')[0][len(bom):]
        n = info.encode('\n')[0][len(bom):]
        rn = info.encode('\r\n')[0][len(bom):]
        if info.encode('a\n')[0][len(bom):] != a + n or info.encode('a\r\na')[0][len(bom):] != a + rn + a:
            return False, b''
        if info.decode(bom + a + n)[0] != 'a\n':
            return False, b''
        return True, bom
    except Exception:
        return False, b''


def expected_newline(info, kind):
    ok_, bom = stateless_info(info)
    return info.encode({'unix': '\n', 'dos': '\r\n'}[kind])[0][len(bom):]


def sym_name(ctx, L):
    n = ctx.choose(1, L, 'name.len')
    name = sym_str(ctx, 'e', n, max_cp=0x7f)
    for c in name.el:
        ctx.assume(z3.Or(rng(c, 48, 57), rng(c, 65, 90), rng(c, 97, 122), c == 45, c == 95, c == 46))
    ctx.assume(neg(nfa_formula(r'[+-]?[0-9]+(?:_[0-9]+)*', name.el)))
    return name


def _resolve(name):
    try:
        enc, info = codecnames.resolver(name)
    except (LookupError, ValueError):
        return None, None
    return enc, info


def ob_newline(ctx, L):
    import pydiffx.utils.text as T
    name = sym_name(ctx, L)
    enc, info = _resolve(name)
    if info is None:
        return skip('not a codec name')
    good, bom = stateless_info(info)
    if not good:
        return skip('stateful or non-text codec: %s' % info.name)
    wit = lambda m: {'kind': 'newline', 'name': model_str(m, name), 'codec': info.name}
    props = []
    for kind in ('unix', 'dos'):
        exp = expected_newline(info, kind)
        try:
            got = T.get_newline_for_type(kind, encoding=name)
        except Exception as e:
            return viol('get_newline_for_type-raised:%s' % type(e).__name__, wit(ctx.model()))
        props.append(('newline-bytes[%s]' % kind, seq_eq(got, exp)))
    # strip_bom on the BOM-carrying encoding of a newline
    raw = info.encode('\n')[0]
    props.append(('strip_bom', seq_eq(T.strip_bom(raw, name), raw[len(bom):])))
    # detection on bytes: CRLF first line => dos with the BOM-free CRLF
    a = info.encode('a')[0][len(bom):]
    data = a + expected_newline(info, 'dos') + a
    try:
        k, nl = T.guess_line_endings(data, encoding=name)
        props.append(('guess_line_endings', conj([k == 'dos', seq_eq(nl, expected_newline(info, 'dos'))])))
    except Exception as e:
        return viol('guess_line_endings-raised:%s' % type(e).__name__, wit(ctx.model()))
    return verdict(ctx, props, witness=wit, sample=lambda m: wit(m))


def ob_roundtrip(ctx, L, N):
    from pydiffx.reader import DiffXReader
    from pydiffx.writer import DiffXWriter
    name = sym_name(ctx, L)
    enc, info = _resolve(name)
    if info is None:
        return skip('not a codec name')
    good, bom = stateless_info(info)
    if not good:
        return skip('stateful or non-text codec: %s' % info.name)
    le = ctx.pick('line_endings', [None, 'unix', 'dos'])
    if enc is not None:
        text = sym_str(ctx, 't', ctx.choose(1, N, 'n'))
        if ctx.pick('shape', ['bare', 'multiline']) == 'multiline':
            # several lines (the library splits on the codec's own newline bytes when it indents / strips indentation)
            nl = '\r\n' if le == 'dos' else '\n'
            text = mk_seq(tuple(map(ord, 'ab' + nl)) + tuple(text.el) + tuple(map(ord, nl + ' c' + nl + 'd')), str)
    else:
        text = ctx.pick('text', ['hi', 'a\r\nb', 'ab\n c\nd\n'])
    wit = lambda m: {'kind': 'roundtrip', 'name': model_str(m, name), 'codec': info.name,
                     'text': model_str(m, text), 'line_endings': le}

    def run(encname):
        st = SymStream()
        w = DiffXWriter(st)
        w.new_change()
        w.write_preamble(text, encoding=encname, indent=1, line_endings=le)
        w.new_file()
        w.write_meta({'k': 1})
        data = st.value()
        recs = list(DiffXReader(SymStream(data)))
        return data, recs
    try:
        data0, recs0 = run(info.name)
    except UnicodeEncodeError:
        return skip('text not encodable')
    except PathTimeout:
        raise
    except Exception as e:
        return viol('roundtrip-fails-under-canonical-name:%s' % type(e).__name__, dict(wit(ctx.model()), error=str(e)[:200]))
    try:
        data1, recs1 = run(name)
    except PathTimeout:
        raise
    except Exception as e:
        return viol('spelling-breaks-roundtrip:%s' % type(e).__name__, dict(wit(ctx.model()), error=str(e)[:200]))
    # same text; same bytes apart from the spelled name in the preamble header
    d0, d1 = lift(data0), lift(data1)
    i0 = d0.find(b'#..preamble:')
    i1 = d1.find(b'#..preamble:')
    c0 = mk_seq(d0.el[d0.find(b'\n', i0) + 1:], bytes)
    c1 = mk_seq(d1.el[d1.find(b'\n', i1) + 1:], bytes)
    from harness.rw import norm_text
    want, _ = norm_text(text, le)
    props = [('text-read-back', seq_eq(recs1[2].get('text'), recs0[2].get('text'))),
             ('text-equals-written', seq_eq(recs1[2].get('text'), want)),
             ('bytes-apart-from-name', seq_eq(c0, c1)),
             ('length-option', recs1[2]['options'].get('length') == recs0[2]['options'].get('length'))]
    return verdict(ctx, props, witness=wit, sample=lambda m: wit(m))


def alias_spellings():
    """every registered alias and codec module name of the platform (the concrete catalogue behind the families)"""
    names = set(codecnames.ALIASES) | set(codecnames.MODULES) | {v for v in codecnames.ALIASES.values()}
    out = []
    for n in sorted(names):
        try:
            info = codecs.lookup(n)
        except LookupError:
            continue
        if stateless_info(info)[0]:
            out.append(n)
    return out


def family_name(ctx, alias):
    """symbolic spelling of the same length as `alias`: every letter in either case, every separator '_' or '-'"""
    name = sym_str(ctx, 'e', len(alias), max_cp=0x7f)
    for e, c in zip(name.el, alias):
        o = ord(c)
        if c.isalpha():
            ctx.assume(z3.Or(e == ord(c.lower()), e == ord(c.upper())))
        elif c in '_-':
            ctx.assume(z3.Or(e == 95, e == 45))
        else:
            ctx.assume(e == o)
    ctx.assume(neg(nfa_formula(r'[+-]?[0-9]+(?:_[0-9]+)*', name.el)))
    return name


def ob_family(ctx, aliases, roundtrip):
    import pydiffx.utils.text as T
    alias = ctx.pick('alias', aliases)
    name = family_name(ctx, alias)
    enc, info = _resolve(name)
    if info is None:
        return skip('spelling family member is not a codec name')
    good, bom = stateless_info(info)
    if not good:
        return skip('stateful or non-text codec: %s' % info.name)
    wit = lambda m: {'kind': 'newline', 'name': model_str(m, name), 'codec': info.name}
    props = []
    for kind in ('unix', 'dos'):
        try:
            got = T.get_newline_for_type(kind, encoding=name)
        except Exception as e:
            return viol('get_newline_for_type-raised:%s' % type(e).__name__, wit(ctx.model()))
        props.append(('newline-bytes[%s]' % kind, seq_eq(got, expected_newline(info, kind))))
    raw = info.encode('\n')[0]
    props.append(('strip_bom', seq_eq(T.strip_bom(raw, name), raw[len(bom):])))
    out = verdict(ctx, props, witness=wit, sample=lambda m: wit(m))
    if out['k'] != 'ok' or not roundtrip or not bom:
        return out
    # BOM-emitting codecs: also the full write/read round trip under this spelling
    return _roundtrip(ctx, name, info, 'hi', None)


def _roundtrip(ctx, name, info, text, le):
    from pydiffx.reader import DiffXReader
    from pydiffx.writer import DiffXWriter
    wit = lambda m: {'kind': 'roundtrip', 'name': model_str(m, name), 'codec': info.name, 'text': model_str(m, text),
                     'line_endings': le}

    def run(encname):
        st = SymStream()
        w = DiffXWriter(st)
        w.new_change()
        w.write_preamble(text, encoding=encname, indent=1, line_endings=le)
        w.new_file()
        w.write_meta({'k': 1})
        data = st.value()
        return data, list(DiffXReader(SymStream(data)))
    try:
        data0, recs0 = run(info.name)
    except Exception as e:
        return skip('canonical spelling fails (%s)' % type(e).__name__)
    try:
        data1, recs1 = run(name)
    except PathTimeout:
        raise
    except Exception as e:
        return viol('spelling-breaks-roundtrip:%s' % type(e).__name__, dict(wit(ctx.model()), error=str(e)[:200]))
    d0, d1 = lift(data0), lift(data1)
    c0 = mk_seq(d0.el[d0.find(b'\n', d0.find(b'#..preamble:')) + 1:], bytes)
    c1 = mk_seq(d1.el[d1.find(b'\n', d1.find(b'#..preamble:')) + 1:], bytes)
    return verdict(ctx, [('text-read-back', seq_eq(recs1[2].get('text'), recs0[2].get('text'))),
                         ('bytes-apart-from-name', seq_eq(c0, c1))], witness=wit, sample=lambda m: wit(m))


def obligations(tier):
    quick = tier == 'quick'
    L = 6 if quick else 8
    aliases = alias_spellings()
    bomfam = [a for a in aliases if stateless_info(codecs.lookup(a))[1]]
    fam = bomfam + [a for a in aliases if len(a) >= 7][::(4 if quick else 1)]
    return [
        Ob('families', ob_family, dict(aliases=sorted(set(fam)), roundtrip=True),
           must_reach=['utils.text:strip_bom'], path_timeout=40,
           desc='for %d registered aliases / module names of stateless text codecs (all BOM-emitting ones, and the long '
                'ones%s): the symbolic spelling family "every letter in either case, every separator - or _"; newline '
                'helpers, and for BOM-emitting codecs the write/read round trip' % (len(set(fam)), ', every 4th' if quick else ''),
           bounds={'aliases': len(set(fam)), 'family': 'case x separator variants, same length'}),
        Ob('newline[name<=%d]' % L, ob_newline, dict(L=L), must_reach=['utils.text:strip_bom', 'utils.text:get_newline_for_type'],
           path_timeout=30, desc='real get_newline_for_type / strip_bom / guess_line_endings with a symbolic codec-name '
           'spelling of 1..%d characters: result == BOM-free LF/CRLF of the codec the platform resolves the name to' % L,
           bounds={'name_len': [1, L]}),
        Ob('roundtrip[name<=%d]' % (L - 1), ob_roundtrip, dict(L=L - 1, N=1 if quick else 2),
           must_reach=['DiffXWriter._prepare_content', 'DiffXReader._read_content'], path_timeout=40,
           desc='writer then reader with encoding=<symbolic spelling>: same text and same content bytes as under the '
                'canonical spelling', bounds={'name_len': [1, L - 1], 'text_len': [1, 1 if quick else 2]}),
    ]


SPELLINGS = ['utf-16', 'UTF-16', 'utf_16', 'U16', 'utf16', 'utf-8-sig', 'UTF8', 'latin1', 'L1', 'cp1252', 'UTF-32', 'u32',
             'utf-16le', 'UTF_16_BE', 'koi8-r', 'cp037', 'big5', 'nonsense', 'utf--16', 'ascii', '646']


def validate(tier):
    """symbolic name resolution agrees with codecs.lookup on concrete spellings (pinned)"""
    from sx.validate import pin_str
    n = 0
    for sp in SPELLINGS:
        try:
            exp = codecs.lookup(sp).name
        except LookupError:
            exp = None
        ctx = Ctx(())
        Ctx.cur = ctx
        try:
            s = pin_str(ctx, 'n', sp)
            try:
                got = codecnames.resolver(s)[1].name
            except LookupError:
                got = None
        finally:
            Ctx.cur = None
        assert got == exp, (sp, got, exp)
        n += 1
    return n


def replay(ob, label, w):
    import io
    from pydiffx.utils import text as T
    from pydiffx.reader import DiffXReader
    from pydiffx.writer import DiffXWriter
    name = w['name']
    try:
        info = codecs.lookup(name)
    except LookupError:
        return {'violated': False, 'error': 'not a codec'}
    good, bom = stateless_info(info)
    if not good:
        return {'violated': False, 'error': 'stateful codec'}
    if w['kind'] == 'newline':
        for kind in ('unix', 'dos'):
            exp = expected_newline(info, kind)
            try:
                got = T.get_newline_for_type(kind, encoding=name)
            except Exception as e:
                return {'violated': True, 'signature': 'spelling:raised:%s' % type(e).__name__, 'detail': '%r: %s' % (name, e)}
            if got != exp:
                return {'violated': True, 'signature': 'spelling:newline-bytes',
                        'detail': 'get_newline_for_type(%r, %r) = %r, BOM-free %s newline is %r' % (kind, name, got, info.name, exp)}
        raw = info.encode('\n')[0]
        if T.strip_bom(raw, name) != raw[len(bom):]:
            return {'violated': True, 'signature': 'spelling:newline-bytes', 'detail': 'strip_bom(%r, %r)' % (raw, name)}
        return {'violated': False}

    def run(encname):
        st = io.BytesIO()
        wr = DiffXWriter(st)
        wr.new_change()
        wr.write_preamble(w['text'], encoding=encname, indent=1, line_endings=w['line_endings'])
        wr.new_file()
        wr.write_meta({'k': 1})
        data = st.getvalue()
        return data, list(DiffXReader(io.BytesIO(data)))
    try:
        d0, r0 = run(info.name)
    except UnicodeEncodeError as e:
        return {'violated': False, 'error': 'text not encodable: %s' % e}
    except Exception as e:
        return {'violated': True, 'signature': 'spelling:roundtrip-fails',
                'detail': 'encoding=%r (canonical name of %r): %s: %s' % (info.name, name, type(e).__name__, e)}
    try:
        d1, r1 = run(name)
    except Exception as e:
        return {'violated': True, 'signature': 'spelling:roundtrip-fails',
                'detail': 'encoding=%r (%s): %s: %s; canonical spelling works' % (name, info.name, type(e).__name__, e)}
    c0 = d0[d0.index(b'\n', d0.index(b'#..preamble:')) + 1:]
    c1 = d1[d1.index(b'\n', d1.index(b'#..preamble:')) + 1:]
    from harness.rw import norm_text
    want = norm_text(w['text'], w['line_endings'])[0]
    if r1[2].get('text') != want:
        return {'violated': True, 'signature': 'spelling:roundtrip-differs',
                'detail': 'encoding=%r: wrote %r, read back %r' % (name, want, r1[2].get('text'))}
    if r1[2].get('text') != r0[2].get('text') or c0 != c1:
        return {'violated': True, 'signature': 'spelling:roundtrip-differs',
                'detail': 'encoding=%r vs %r: text %r vs %r; bytes %r vs %r' % (name, info.name, r1[2].get('text'), r0[2].get('text'), c1, c0)}
    return {'violated': False}
