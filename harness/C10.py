"""C10 -- the reader accepts exactly the section orders the hierarchy allows."""
import z3

from sx import instrument
from sx.core import Ctx, PathTimeout, conj, disj, lift, mk_seq, model_bytes, neg, sym_bytes
from sx.run import Ob, ok, skip, verdict, viol
from sx.streams import SymStream

ASSUMPTIONS = [
    'prefix files are the valid walks of the specification hierarchy up to the stated length (each section with '
    'minimal valid content); the section header that follows has a fully symbolic name (3..8 bytes) and 0..4 dots',
    'the symbolic header carries "length=3, version=1.0" and content "{}\\n" so that every legal id is otherwise valid',
]


def setup():
    instrument.install('ref')


SEC_BYTES = {
    'diffx': b'#diffx: version=1.0\n',
    '.preamble': b'#.preamble: length=2\nx\n',
    '.meta': b'#.meta: format=json, length=3\n{}\n',
    '.change': b'#.change:\n',
    '..preamble': b'#..preamble: indent=1, length=3\n y\n',
    '..meta': b'#..meta: length=9\n{"a": 1}\n',
    '..file': b'#..file:\n',
    '...meta': b'#...meta: length=3\n{}\n',
    '...diff': b'#...diff: length=2\nd\n',
}


def walks(maxlen):
    import ref.spec as S
    out = [[]]
    frontier = [['diffx']]
    while frontier:
        out.extend(frontier)
        nxt = []
        for w in frontier:
            if len(w) >= maxlen:
                continue
            for t in S.REF_HIER[w[-1]]:
                nxt.append(w + [t])
        frontier = nxt
    return out


def ob_relation(ctx):
    """the transition table in the current source == the specification relation (finite query)"""
    import ref.spec as S
    try:
        from pydiffx.sections import VALID_SECTION_STATES as T
    except ImportError:
        return skip('pydiffx.sections.VALID_SECTION_STATES not found')
    ids = S.all_ids_24()
    idx = {s: i for i, s in enumerate(ids)}
    for p, ns in T.items():
        if p not in idx or any(n not in idx for n in ns):
            return viol('table-has-illegal-id', {'prev': p, 'next': sorted(ns)})
    prev, nxt = z3.Int('prev'), z3.Int('next')
    ctx.assume(z3.And(prev >= 0, prev < 24, nxt >= 0, nxt < 24))
    impl = z3.Or(*[z3.And(prev == idx[p], nxt == idx[n]) for p, ns in T.items() for n in ns])
    ref = z3.Or(*[z3.And(prev == idx[p], nxt == idx[n]) for p, ns in S.REF_HIER.items() for n in ns])
    return verdict(ctx, [('table-equals-spec-relation', impl == ref)],
                   witness=lambda m: {'prev': ids[m.eval(prev, True).as_long()], 'next': ids[m.eval(nxt, True).as_long()],
                                      'kind': 'relation'},
                   sample=lambda m: {'pairs_in_table': sum(len(v) for v in T.values())})


def ob_next(ctx, W):
    """real reader: valid walk prefix, then one header with symbolic id"""
    import ref.spec as S
    from pydiffx.reader import DiffXReader
    from pydiffx.errors import DiffXParseError
    walk = ctx.pick('walk', W)
    lvl = ctx.choose(0, 4, 'dots')
    n = ctx.choose(3, 8, 'name_len')
    name = sym_bytes(ctx, 'nm', n)
    for e in name.el:
        ctx.assume(z3.And(e != 10, e != 13))
    prefix = b''.join(SEC_BYTES[s] for s in walk)
    hdr = mk_seq(tuple(b'#' + b'.' * lvl) + name.el + tuple(b': length=3, version=1.0\n{}\n'), bytes)
    data = mk_seq(tuple(prefix) + lift(hdr).el, bytes)
    wit = lambda m: {'kind': 'next', 'walk': walk, 'data': model_bytes(m, data), 'header_id': (b'.' * lvl + model_bytes(m, name))}
    prev = walk[-1] if walk else None
    allowed_ids = S.REF_HIER[prev] if prev else ['diffx']
    full = lift(mk_seq(tuple(b'.' * lvl) + name.el, bytes))      # the name bytes may themselves contain dots
    allowed = disj(full.eq_cond(t.encode()) for t in allowed_ids if len(t) == lvl + n)
    it = iter(DiffXReader(SymStream(data)))
    try:
        for s in walk:
            r = next(it)
            if r['section'] != s:
                return viol('prefix-record', wit(ctx.model()))
    except DiffXParseError as e:
        return viol('valid-prefix-rejected', dict(wit(ctx.model()), error=str(e)))
    except Exception as e:
        return viol('prefix-raised:%s' % type(e).__name__, wit(ctx.model()))
    try:
        rec = next(it)
    except DiffXParseError as e:
        return verdict(ctx, [('rejected-but-allowed', neg(allowed))], witness=wit,
                       sample=lambda m: dict(wit(m), outcome='reject'))
    except StopIteration:
        return viol('header-ignored', wit(ctx.model()))
    except PathTimeout:
        raise
    except Exception as e:
        return viol('raised:%s' % type(e).__name__, wit(ctx.model()))
    sid = rec['section']
    want = mk_seq(tuple(b'.' * lvl) + name.el, bytes)
    props = [('accepted-but-not-allowed', allowed),
             ('record-id', lift(want).eq_cond(sid.encode() if isinstance(sid, str) and type(sid) is str else
                                               mk_seq([x if isinstance(x, int) else z3.Extract(7, 0, x) for x in lift(sid).el], bytes))),
             ('record-level', conj(disj([neg(full.eq_cond(t.encode())), rec['level'] == t.count('.')])
                                   for t in allowed_ids if len(t) == lvl + n))]
    return verdict(ctx, props, witness=wit, sample=lambda m: dict(wit(m), outcome='accept'))


DEEP_WALKS = [
    ['diffx', '.change', '..file', '...meta', '...diff'],
    ['diffx', '.change', '..file', '...meta', '...diff', '..file', '...meta'],
    ['diffx', '.change', '..file', '...meta', '...diff', '.change'],
    ['diffx', '.change', '..file', '...meta', '...diff', '.change', '..preamble'],
    ['diffx', '.preamble', '.meta', '.change', '..preamble', '..meta', '..file', '...meta', '...diff'],
    ['diffx', '.change', '..meta', '.change', '..file', '...meta', '..file', '...meta', '...diff', '..file'],
]


SEC_BYTES_OPTS = dict(SEC_BYTES)
SEC_BYTES_OPTS.update({'.change': b'#.change: encoding=utf-8\n', '..file': b'#..file: k=v\n'})


def ob_repeat(ctx, W):
    """a header (with its content) that was already accepted earlier in the same file is repeated verbatim"""
    import ref.spec as S
    from pydiffx.reader import DiffXReader
    from pydiffx.errors import DiffXParseError
    walk = ctx.pick('walk', [w for w in W if w])
    i = ctx.choose(0, len(walk) - 1, 'repeat')
    table = SEC_BYTES_OPTS if ctx.choose(0, 1, 'container-options') else SEC_BYTES
    data = b''.join(table[s] for s in walk) + table[walk[i]]
    allowed = S.may_follow(walk[-1], walk[i])
    wit = lambda m: {'kind': 'next', 'walk': walk, 'data': data, 'header_id': walk[i].encode()}
    it = iter(DiffXReader(SymStream(data)))
    try:
        for s in walk:
            next(it)
    except Exception as e:
        return viol('valid-prefix-rejected', dict(wit(None), error=str(e)))
    try:
        next(it)
        acc = True
    except DiffXParseError:
        acc = False
    except StopIteration:
        return viol('header-ignored', wit(None))
    except Exception as e:
        return viol('raised:%s' % type(e).__name__, wit(None))
    return verdict(ctx, [('accepted-but-not-allowed' if acc else 'rejected-but-allowed', acc == allowed)], witness=wit,
                   sample=lambda m: dict(wit(m), outcome='accept' if acc else 'reject'))


def obligations(tier):
    quick = tier == 'quick'
    W = walks(4 if quick else 6)
    # every one of the nine states must be reached in the quick tier too (a '...diff' needs five sections), and
    # some states are reached a second time through a longer history
    W = W + [w for w in DEEP_WALKS if w not in W]
    obs = [Ob('relation', ob_relation, {}, desc='finite query: VALID_SECTION_STATES (current source) == REF_HIER '
              'over all 24x24 (level 0-3 x 6 names) id pairs', bounds={'ids': 24})]
    obs.append(Ob('next-header', ob_next, dict(W=W), must_reach=['DiffXReader.iter_sections', 'DiffXReader._read_header'],
                  desc='real reader on every valid walk of the hierarchy up to %d sections followed by a header with '
                       'symbolic name (3..8 bytes) and 0..4 dots: accepted <=> allowed by REF_HIER' % (4 if quick else 6),
                  bounds={'walks': len(W), 'max_walk': 4 if quick else 6, 'name_len': [3, 8], 'dots': [0, 4]}))
    obs.append(Ob('repeated-header', ob_repeat, dict(W=W), must_reach=['DiffXReader.iter_sections'],
                  desc='every valid walk followed by a verbatim copy of any section already in it (with and without options '
                       'on the containers): accepted <=> allowed', bounds={'walks': len(W)}))
    return obs


def validate(tier):
    from pydiffx.reader import DiffXReader
    from sx import validate as V
    n = 0
    for w in walks(5):
        data = b''.join(SEC_BYTES[s] for s in w)
        n += V.check_same('reader on walk', lambda d: [r['section'] for r in DiffXReader(SymStream(d))], data)
        if n > 60:
            break
    return n


def replay(ob, label, w):
    import io
    import ref.spec as S
    from pydiffx.reader import DiffXReader
    from pydiffx.errors import DiffXParseError
    if w.get('kind') == 'relation':
        from pydiffx.sections import VALID_SECTION_STATES as T
        a = w['next'] in T.get(w['prev'], ())
        b = w['next'] in S.REF_HIER.get(w['prev'], ())
        return {'violated': a != b, 'signature': 'order:table-differs-from-spec',
                'detail': '%s -> %s: table %r, specification %r' % (w['prev'], w['next'], a, b)}
    data, walk = w['data'], w['walk']
    hid = w['header_id'].decode('latin-1')
    prev = walk[-1] if walk else None
    allowed = S.may_follow(prev, hid)
    it = iter(DiffXReader(io.BytesIO(data)))
    try:
        for s in walk:
            r = next(it)
            if r['section'] != s:
                return {'violated': True, 'signature': 'order:prefix', 'detail': repr(data)}
    except Exception as e:
        return {'violated': True, 'signature': 'order:valid-prefix-rejected', 'detail': '%s: %s' % (type(e).__name__, e)}
    try:
        rec = next(it)
        acc = True
    except DiffXParseError:
        acc = False
    except StopIteration:
        return {'violated': True, 'signature': 'order:header-ignored', 'detail': repr(data)}
    except Exception as e:
        return {'violated': True, 'signature': 'order:raised:%s' % type(e).__name__, 'detail': '%r: %s' % (data, e)}
    if acc != allowed:
        return {'violated': True, 'signature': 'order:accepted-not-allowed' if acc else 'order:rejected-allowed',
                'detail': 'after %r header id %r: accepted=%r, specification allows=%r' % (prev, hid, acc, allowed)}
    if acc and (rec['section'] != hid or rec['level'] != hid.count('.')):
        return {'violated': True, 'signature': 'order:record-id', 'detail': repr(rec)}
    return {'violated': False}
