"""C19 -- typed attributes validate atomically; equality is structural and congruent."""
import copy

import z3

from sx.core import (Ctx, PathTimeout, SBool, SInt, SSeq, conj, disj, lift, mk_seq, model_bytes, model_int, model_str,
                     neg, seq_eq, sym_bytes, sym_int, sym_str, concretize_value)
from sx.instrument import SymDict, value_eq
from sx.run import Ob, ok, skip, verdict, viol

ASSUMPTIONS = [
    'attribute table (name -> declared type and allowed choices) is written from the property / documentation, not '
    'read from the descriptors; candidate values: symbolic str of length 1,3,4,6,10 (covers dos/unix/json/text/1.0/'
    'binary/text/plain by solver choice), every documented choice concretely, symbolic int, bool, symbolic bytes, None, '
    'dict, list',
    'equality: trees with 0..1 changes x 0..2 files; every option/content field independently present/absent with a '
    'symbolic value (1 code point / byte / integer)',
    'bool is accepted where int is declared (Python subtyping)',
]

STR, INT, BYTES, DICT = 'str', 'int', 'bytes', 'dict'
CH = {
    'version': ['1.0'], 'line_endings': ['dos', 'unix'], 'mimetype': ['text/plain', 'text/markdown'], 'format': ['json'],
    'type': ['text', 'binary'],
}
# attribute -> (declared type, choices key, path to the section holding it, stored as ('option', name) | ('content',))
PRE = {'preamble': (STR, None, 'preamble_section', ('content',)),
       'preamble_encoding': (STR, None, 'preamble_section', ('option', 'encoding')),
       'preamble_indent': (INT, None, 'preamble_section', ('option', 'indent')),
       'preamble_line_endings': (STR, 'line_endings', 'preamble_section', ('option', 'line_endings')),
       'preamble_mimetype': (STR, 'mimetype', 'preamble_section', ('option', 'mimetype'))}
META = {'meta': (DICT, None, 'meta_section', ('content',)),
        'meta_encoding': (STR, None, 'meta_section', ('option', 'encoding')),
        'meta_format': (STR, 'format', 'meta_section', ('option', 'format'))}
DIFF = {'diff': (BYTES, None, 'diff_section', ('content',)),
        'diff_encoding': (STR, None, 'diff_section', ('option', 'encoding')),
        'diff_line_endings': (STR, 'line_endings', 'diff_section', ('option', 'line_endings')),
        'diff_type': (STR, 'type', 'diff_section', ('option', 'type'))}
ENC = {'encoding': (STR, None, None, ('option', 'encoding'))}
ATTRS = {
    'diffx': dict(ENC, version=(STR, 'version', None, ('option', 'version')), **dict(PRE, **META)),
    'change': dict(ENC, **dict(PRE, **META)),
    'file': dict(ENC, **dict(META, **DIFF)),
    'preamble_section': {'content': (STR, None, None, ('content',)), 'encoding': (STR, None, None, ('option', 'encoding')),
                         'indent': (INT, None, None, ('option', 'indent')),
                         'line_endings': (STR, 'line_endings', None, ('option', 'line_endings')),
                         'mimetype': (STR, 'mimetype', None, ('option', 'mimetype'))},
    'meta_section': {'content': (DICT, None, None, ('content',)), 'encoding': (STR, None, None, ('option', 'encoding')),
                     'format': (STR, 'format', None, ('option', 'format'))},
    'diff_section': {'content': (BYTES, None, None, ('content',)), 'encoding': (STR, None, None, ('option', 'encoding')),
                     'line_endings': (STR, 'line_endings', None, ('option', 'line_endings')),
                     'type': (STR, 'type', None, ('option', 'type'))},
}


def _tree():
    from pydiffx import DiffX
    d = DiffX(preamble='top', meta={'m': 1})
    c = d.add_change(preamble='chg', meta={'c': 2}, encoding='utf-16')
    f = c.add_file(meta={'path': 'x'}, diff=b'd\n', diff_type='text')
    return d, c, f


def snapshot(d):
    """every option and content of every section of a tree"""
    out = []

    def sec(s):
        out.append((s.section_id, list(s.options.items()), getattr(s, '_content', None) if hasattr(s, 'content') else None))
    sec(d)
    sec(d.preamble_section)
    sec(d.meta_section)
    for c in d.changes:
        sec(c)
        sec(c.preamble_section)
        sec(c.meta_section)
        for f in c.files:
            sec(f)
            sec(f.meta_section)
            sec(f.diff_section)
    return copy.deepcopy(out)


def _value(ctx):
    kind = ctx.pick('value-kind', ['str', 'choice', 'int', 'bool', 'bytes', 'none', 'dict', 'list'])
    if kind == 'str':
        return sym_str(ctx, 'v', ctx.pick('strlen', [1, 3, 4, 6, 10]), max_cp=0x7f)
    if kind == 'choice':
        return ctx.pick('choice', sorted(set(sum(CH.values(), []))))
    if kind == 'int':
        return sym_int(ctx, 'vi')
    if kind == 'bool':
        return bool(ctx.choose(0, 1, 'b'))
    if kind == 'bytes':
        return sym_bytes(ctx, 'vb', 1)
    if kind == 'none':
        return None
    if kind == 'dict':
        return {'k': sym_int(ctx, 'dv')}
    return [1]


def _declared_ok(value, typ, choices):
    """condition: value has the declared type and, if choices exist, is one of them"""
    if typ == STR:
        t_ok = isinstance(value, str)
    elif typ == INT:
        t_ok = isinstance(value, int)
    elif typ == BYTES:
        t_ok = isinstance(value, bytes)
    else:
        t_ok = isinstance(value, dict)
    if not t_ok:
        return False
    if choices:
        return disj(lift(value).eq_cond(c) for c in choices)
    return True


def ob_assign(ctx):
    from pydiffx.errors import BaseDiffXError
    d, c, f = _tree()
    objs = {'diffx': d, 'change': c, 'file': f, 'preamble_section': c.preamble_section, 'meta_section': f.meta_section,
            'diff_section': f.diff_section}
    target = ctx.pick('object', sorted(objs))
    name = ctx.pick('attribute', sorted(ATTRS[target]))
    typ, chk, holder, where = ATTRS[target][name]
    value = _value(ctx)
    obj = objs[target]
    before = snapshot(d)
    okc = _declared_ok(value, typ, CH.get(chk))

    def wit(m):
        return {'kind': 'assign', 'object': target, 'attribute': name, 'value': concretize_value(m, value),
                'value_type': type(concretize_value(m, value)).__name__}
    try:
        setattr(obj, name, value)
        raised = None
    except PathTimeout:
        raise
    except Exception as e:
        raised = e
    if raised is None:
        props = [('stored-value-of-wrong-type-or-choice', okc)]
        sec = getattr(obj, holder) if holder else obj
        got = sec.options.get(where[1]) if where[0] == 'option' else sec.content
        props.append(('stored-value-differs', value_eq(got, value)))
        props.append(('getter-returns-stored', value_eq(getattr(obj, name), value)))
    else:
        props = [('rejected-valid-value:%s' % type(raised).__name__, neg(okc)),
                 ('tree-changed-by-rejected-assignment', value_eq(snapshot(d), before))]
    return verdict(ctx, props, witness=lambda m: dict(wit(m), raised=type(raised).__name__ if raised else None),
                   sample=lambda m: dict(wit(m), outcome=type(raised).__name__ if raised else 'stored'))


def ob_ctor(ctx):
    """unknown constructor attributes are rejected (name = any identifier that is not an attribute of the class)"""
    from pydiffx import DiffX
    from pydiffx.dom import objects as O
    from pydiffx.errors import DiffXUnknownOptionError
    cls = ctx.pick('class', [O.DiffX, O.DiffXChangeSection, O.DiffXFileSection, O.DiffXPreambleSection,
                             O.DiffXMetaSection, O.DiffXFileDiffSection])
    name = ctx.pick('name', ['bogus', 'Encoding', 'length', 'diff_bogus', 'mimetype_', 'x'])
    try:
        cls(**{name: 'v'})
    except DiffXUnknownOptionError:
        return ok()
    except Exception as e:
        return viol('ctor-raised:%s' % type(e).__name__, {'kind': 'ctor', 'class': cls.__name__, 'name': name})
    return viol('ctor-accepted-unknown-attribute', {'kind': 'ctor', 'class': cls.__name__, 'name': name})


FIELDS_CONTAINER = ['encoding']


def _build(ctx, tag, nch, nfiles):
    """a tree whose fields are independently present/absent with symbolic values; returns (tree, field list)"""
    from pydiffx import DiffX
    fields = []

    def opt(section, path, name, mk):
        if ctx.choose(0, 1, '%s.%s.%s?' % (tag, path, name)):
            v = mk('%s_%s_%s' % (tag, path.replace('.', '_'), name))
            section.options[name] = v
            fields.append((path, 'opt', name, v))
        else:
            fields.append((path, 'opt', name, None))

    def content(section, path, mk):
        if ctx.choose(0, 1, '%s.%s.content?' % (tag, path)):
            v = mk('%s_%s_c' % (tag, path.replace('.', '_')))
            section._content = v
            fields.append((path, 'content', None, v))
        else:
            fields.append((path, 'content', None, section._content))
    s1 = lambda n: sym_str(ctx, n, 1, max_cp=0x7f)
    d = DiffX()
    d.options.clear()
    opt(d, 'main', 'encoding', s1)
    content(d.preamble_section, 'main.preamble', s1)
    for i in range(nch):
        c = d.add_change()
        opt(c, 'c%d' % i, 'encoding', s1)
        content(c.meta_section, 'c%d.meta' % i, lambda n: {'k': sym_int(ctx, n, 0, 3)})
        for j in range(nfiles):
            f = c.add_file()
            opt(f.diff_section, 'c%d.f%d.diff' % (i, j), 'type', s1)
            content(f.diff_section, 'c%d.f%d.diff' % (i, j), lambda n: sym_bytes(ctx, n, 1))
    return d, fields


def _fields_eq(fa, fb):
    if len(fa) != len(fb):
        return False
    cs = []
    for (pa, ka, na, va), (pb, kb, nb, vb) in zip(fa, fb):
        if (pa, ka, na) != (pb, kb, nb):
            return False
        if (va is None) != (vb is None):
            return False
        if va is not None:
            cs.append(value_eq(va, vb))
    return conj(cs)


def ob_equality(ctx, maxf):
    nch_a = ctx.choose(0, 1, 'A.changes')
    nf_a = ctx.choose(0, maxf, 'A.files') if nch_a else 0
    same_shape = ctx.choose(0, 1, 'same-shape')
    if same_shape:
        nch_b, nf_b = nch_a, nf_a
    else:
        nch_b = ctx.choose(0, 1, 'B.changes')
        nf_b = ctx.choose(0, maxf, 'B.files') if nch_b else 0
    A, fa = _build(ctx, 'A', nch_a, nf_a)
    B, fb = _build(ctx, 'B', nch_b, nf_b)
    oracle = _fields_eq(fa, fb) if (nch_a, nf_a) == (nch_b, nf_b) else False
    wit = lambda m: {'kind': 'equality', 'A': concretize_value(m, snapshot(A)), 'B': concretize_value(m, snapshot(B))}
    try:
        eq = bool(A == B)
        ne = bool(A != B)
    except PathTimeout:
        raise
    except Exception as e:
        return viol('eq-raised:%s' % type(e).__name__, wit(ctx.model()))
    props = [('__eq__-is-structural', oracle if eq else neg(oracle)), ('__ne__-is-negation', ne != eq)]
    if eq and nch_a:
        # congruence: equal trees serialise to identical bytes (when they serialise at all)
        try:
            ba = A.to_bytes()
        except Exception as e:
            ba = type(e).__name__
        try:
            bb = B.to_bytes()
        except Exception as e:
            bb = type(e).__name__
        if isinstance(ba, str) or isinstance(bb, str):
            props.append(('equal-trees-serialise-alike', ba == bb))
        else:
            props.append(('equal-trees-serialise-alike', seq_eq(ba, bb)))
    return verdict(ctx, props, witness=wit, sample=lambda m: dict(wit(m), equal=eq))


def ob_perturb(ctx):
    """changing any single option or content anywhere makes two equal trees unequal"""
    d, c, f = _tree()
    B, _c, _f = _tree()          # an independently built, field-wise identical tree
    if not bool(d == B):
        return viol('identically-built-trees-unequal', {'kind': 'perturb'})
    secs = [('main', B), ('main.preamble', B.preamble_section), ('main.meta', B.meta_section), ('change', B.changes[0]),
            ('change.preamble', B.changes[0].preamble_section), ('change.meta', B.changes[0].meta_section),
            ('file', B.changes[0].files[0]), ('file.meta', B.changes[0].files[0].meta_section),
            ('file.diff', B.changes[0].files[0].diff_section)]
    path, sec = ctx.pick('section', secs)
    what = ctx.pick('field', ['new-option', 'existing-option', 'remove-option', 'content'])
    rkey = None
    if what == 'content':
        if not hasattr(sec, 'content'):
            return skip('container has no content')
        old = sec._content
        if isinstance(old, dict):
            new = dict(old, extra=sym_int(ctx, 'nv'))
        elif isinstance(old, bytes):
            new = sym_bytes(ctx, 'nb', len(old))
            ctx.assume(neg(lift(new).eq_cond(old)))
        elif isinstance(old, str):
            new = sym_str(ctx, 'ns', len(old), max_cp=0x7f)
            ctx.assume(neg(lift(new).eq_cond(old)))
        else:
            return skip('no content to perturb')
        sec._content = new
    elif what == 'new-option':
        sec.options[mk_seq(sym_str(ctx, 'ok', 2, max_cp=0x7f).el, str)] = 'v'
        # a fresh key: must differ from every existing key
        for k in list(sec.options.keys())[:-1]:
            cnd = lift(list(sec.options.keys())[-1]).eq_cond(k) if isinstance(k, str) else False
            if cnd is not False:
                ctx.assume(neg(cnd))
    elif what == 'remove-option':
        # an option present on one tree and absent on the other -- whatever its value, including the value the class
        # would default to (a file without '#diffx: encoding=' is not a UTF-8 file)
        keys = sorted(sec.options.keys())
        if not keys:
            return skip('no option to remove')
        rkey = ctx.pick('key', keys)
        del sec.options[rkey]
    else:
        keys = [k for k in sec.options.keys() if isinstance(sec.options[k], str)]
        if not keys:
            return skip('no option to perturb')
        k = ctx.pick('key', keys)
        old = sec.options[k]
        new = sym_str(ctx, 'nv', len(old), max_cp=0x7f)
        ctx.assume(neg(lift(new).eq_cond(old)))
        sec.options[k] = new
    wit = lambda m: {'kind': 'perturb', 'section': path, 'field': what, 'key': rkey}
    try:
        eq = bool(d == B)
        ne = bool(d != B)
    except Exception as e:
        return viol('eq-raised:%s' % type(e).__name__, wit(ctx.model()))
    return verdict(ctx, [('perturbed-tree-still-equal', not eq), ('__ne__-is-negation', ne != eq)], witness=wit,
                   sample=lambda m: wit(m))


def obligations(tier):
    quick = tier == 'quick'
    return [
        Ob('assign', ob_assign, {}, must_reach=['OptionProperty.__set__'], path_timeout=20,
           desc='every typed attribute (own and forwarded) of every section class of a 1-change/1-file tree assigned '
                'every candidate value kind: stored => declared type and allowed choice and readable back; raised => '
                'whole-tree snapshot unchanged; valid values are never rejected',
           bounds={'objects': 6, 'value_kinds': 8, 'str_len': [1, 3, 4, 6, 10]}),
        Ob('constructor', ob_ctor, {}, desc='unknown constructor attributes raise DiffXUnknownOptionError',
           bounds={'names': 6, 'classes': 6}),
        Ob('equality', ob_equality, dict(maxf=1 if quick else 2), must_reach=['BaseDiffXSection.__eq__'], path_timeout=30,
           desc='A == B <=> same shape and field-wise equal options/contents (fields independently symbolic); != is the '
                'negation; equal trees serialise to identical bytes', bounds={'changes': [0, 1], 'files': [0, 1 if quick else 2]}),
        Ob('perturbation', ob_perturb, {}, must_reach=['BaseDiffXSection.__eq__'],
           desc='two identically built trees are equal; changing any single option or content (symbolic new value, assumed '
                'different) in any section makes the trees unequal', bounds={'sections': 9}),
    ]


def validate(tier):
    d, c, f = _tree()
    B, _c, _f = _tree()
    assert d == B and not (d != B)
    B.changes[0].files[0].diff = b'e\n'
    assert d != B
    return 2


def replay(ob, label, w):
    from pydiffx import DiffX
    from pydiffx.dom import objects as O
    from pydiffx.errors import DiffXUnknownOptionError
    if w['kind'] == 'ctor':
        cls = getattr(O, w['class'])
        try:
            cls(**{w['name']: 'v'})
        except DiffXUnknownOptionError:
            return {'violated': False}
        except Exception as e:
            return {'violated': True, 'signature': 'typed:ctor-raised:%s' % type(e).__name__, 'detail': repr(w)}
        return {'violated': True, 'signature': 'typed:ctor-accepted-unknown', 'detail': repr(w)}
    if w['kind'] == 'assign':
        d, c, f = _tree()
        objs = {'diffx': d, 'change': c, 'file': f, 'preamble_section': c.preamble_section,
                'meta_section': f.meta_section, 'diff_section': f.diff_section}
        obj = objs[w['object']]
        typ, chk, holder, where = ATTRS[w['object']][w['attribute']]
        v = w['value']
        if w['value_type'] == 'bool':
            v = bool(v)
        before = _plain_snapshot(d)
        t_ok = isinstance(v, {STR: str, INT: int, BYTES: bytes, DICT: dict}[typ]) and (not CH.get(chk) or v in CH[chk])
        try:
            setattr(obj, w['attribute'], v)
        except Exception as e:
            if t_ok:
                return {'violated': True, 'signature': 'typed:rejected-valid-value', 'detail': '%r: %s' % (w, e)}
            if _plain_snapshot(d) != before:
                return {'violated': True, 'signature': 'typed:rejected-assignment-changed-tree', 'detail': repr(w)}
            return {'violated': False}
        if not t_ok:
            return {'violated': True, 'signature': 'typed:stored-invalid-value',
                    'detail': '%s.%s = %r was stored' % (w['object'], w['attribute'], v)}
        if getattr(obj, w['attribute']) != v:
            return {'violated': True, 'signature': 'typed:stored-value-differs', 'detail': repr(w)}
        return {'violated': False}
    if w['kind'] == 'perturb':
        return {'violated': True, 'signature': 'equality:perturbation-not-detected', 'detail': repr(w)} \
            if _replay_perturb(w) else {'violated': False}
    # equality
    A = _tree_from_snapshot(w['A'])
    B = _tree_from_snapshot(w['B'])
    oracle = _plain(w['A']) == _plain(w['B'])
    eq, ne = (A == B), (A != B)
    if eq != oracle or ne == eq:
        return {'violated': True, 'signature': 'equality:not-structural',
                'detail': '== gives %r, != gives %r, field-wise equal: %r; A=%r B=%r' % (eq, ne, oracle, w['A'], w['B'])}
    if eq and A.changes:
        def tb(t):
            try:
                return t.to_bytes()
            except Exception as e:
                return type(e).__name__
        if tb(A) != tb(B):
            return {'violated': True, 'signature': 'equality:not-congruent', 'detail': repr(w)}
    return {'violated': False}


def _plain(x):
    if isinstance(x, (list, tuple)):
        return [_plain(y) for y in x]
    return x


def _plain_snapshot(d):
    return _plain([(s[0], sorted(map(repr, s[1])), repr(s[2])) for s in snapshot(d)])


def _tree_from_snapshot(snap):
    from pydiffx import DiffX
    d = DiffX()
    cur_c = cur_f = None
    for sid, opts, content in snap:
        if sid in ('diffx', 'None'):        # DiffX.section_id is 'None' (no section_name on the main class)
            sec = d
        elif sid == '.preamble':
            sec = d.preamble_section
        elif sid == '.meta':
            sec = d.meta_section
        elif sid == '.change':
            cur_c = d.add_change()
            sec = cur_c
        elif sid == '..preamble':
            sec = cur_c.preamble_section
        elif sid == '..meta':
            sec = cur_c.meta_section
        elif sid == '..file':
            cur_f = cur_c.add_file()
            sec = cur_f
        elif sid == '...meta':
            sec = cur_f.meta_section
        else:
            sec = cur_f.diff_section
        sec.options.clear()
        for k, v in opts:
            sec.options[k] = v
        if hasattr(sec, '_content'):
            sec._content = content
    return d


def _replay_perturb(w):
    d, c, f = _tree()
    B, _c, _f = _tree()
    secs = {'main': B, 'main.preamble': B.preamble_section, 'main.meta': B.meta_section, 'change': B.changes[0],
            'change.preamble': B.changes[0].preamble_section, 'change.meta': B.changes[0].meta_section,
            'file': B.changes[0].files[0], 'file.meta': B.changes[0].files[0].meta_section,
            'file.diff': B.changes[0].files[0].diff_section}
    sec = secs[w['section']]
    if w['field'] == 'content':
        old = sec._content
        sec._content = dict(old, extra=1) if isinstance(old, dict) else (old + old[:1] if old else None)
    elif w['field'] == 'new-option':
        sec.options['zz'] = 'v'
    elif w['field'] == 'remove-option':
        if w.get('key') not in sec.options:
            return False
        del sec.options[w['key']]
    else:
        ks = [k for k, v in sec.options.items() if isinstance(v, str)]
        if not ks:
            return False
        sec.options[ks[0]] = sec.options[ks[0]] + 'x'
    return (d == B) or not (d != B)
