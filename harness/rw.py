"""Shared pieces of the reader/writer harnesses: encoding catalogue, written-file
scripts, the norm() oracle of C01, record comparison."""
import z3

from sx.core import (_br, Ctx, SSeq, conj, lift, mk_seq, model_bytes, model_str, neg, seq_eq, sym_bytes, sym_str)
from sx.instrument import value_eq
from sx.streams import SymStream

E8 = ['ascii', 'latin-1', 'utf-8', 'utf-16', 'utf-16-le', 'utf-16-be', 'utf-32', 'utf-32-be']
E10 = E8 + ['utf-8-sig', 'utf-32-le']
IDS = ['diffx', '.preamble', '.meta', '.change', '..preamble', '..meta', '..file', '...meta', '...diff']
NL = {'unix': '\n', 'dos': '\r\n'}


def detect_le(seq, nl_unix='\n', nl_dos='\r\n'):
    """first-line detection on a str/bytes value (independent of pydiffx):
    dos iff the first LF is immediately preceded by CR"""
    s = lift(seq)
    i = s.find(nl_unix)
    if i < 0:
        return 'unix'
    k = len(nl_dos) - len(nl_unix)
    if i - k >= 0 and _br(s.at(lift(nl_dos).el, i - k)):
        return 'dos'
    return 'unix'


def norm_text(text, line_endings):
    """C01: content unchanged except that a missing final line ending (of the
    declared or first-line-detected kind) is appended"""
    le = line_endings or detect_le(text)
    nl = NL[le]
    t = lift(text)
    if bool(t.endswith(nl)):
        return text, le
    return mk_seq(t.el + tuple(map(ord, nl)), str), le


def bomless_newline(le, encoding):
    """BOM-free encoding of the newline of kind `le` in a concrete codec
    (platform codec; independent of pydiffx's tables)"""
    import codecs
    nl = NL[le]
    enc = encoding or 'ascii'
    name = codecs.lookup(enc).name
    b = nl.encode(enc)
    for bom in (codecs.BOM_UTF32_LE, codecs.BOM_UTF32_BE, codecs.BOM_UTF8, codecs.BOM_UTF16_LE, codecs.BOM_UTF16_BE):
        # a BOM can only have been *emitted* by the BOM-writing variants
        if name in ('utf-16', 'utf-32', 'utf-8-sig') and b.startswith(bom) and len(b) > len(bom):
            return b[len(bom):]
    return b


def norm_bytes(data, line_endings, encoding):
    if line_endings:
        le = line_endings
    else:
        le = detect_le(data, bomless_newline('unix', encoding), bomless_newline('dos', encoding))
    nl = bomless_newline(le, encoding)
    d = lift(data)
    if bool(d.endswith(nl)):
        return data, le
    return mk_seq(d.el + tuple(nl), bytes), le


class Script:
    """a sequence of writer calls (section id, call name, kwargs)"""

    def __init__(self, encoding='utf-8'):
        self.main_encoding = encoding
        self.calls = []

    def add(self, sid, fn, *a, **k):
        self.calls.append((sid, fn, a, k))
        return self

    def run(self, DiffXWriter, stream):
        w = DiffXWriter(stream, encoding=self.main_encoding) if self.main_encoding != 'DEFAULT' else DiffXWriter(stream)
        for sid, fn, a, k in self.calls:
            getattr(w, fn)(*a, **k)
        return w


def prefix_for(sid, script, filler=True):
    """append the concrete containers (and mandatory sections) needed before a
    section with id `sid` can be written"""
    if sid in ('.preamble', '.meta'):
        return script
    script.add('.change', 'new_change')
    if sid in ('..preamble', '..meta'):
        return script
    script.add('..file', 'new_file')
    if sid == '...diff':
        script.add('...meta', 'write_meta', {'path': 'f'})
    return script


def suffix_for(sid, script):
    """complete the file after the section so that it is well-formed"""
    if sid in ('.preamble', '.meta'):
        script.add('.change', 'new_change')
        sid = '.change'
    if sid in ('.change', '..preamble', '..meta'):
        script.add('..file', 'new_file')
        sid = '..file'
    if sid == '..file':
        script.add('...meta', 'write_meta', {'path': 'g'})
    return script


def read_all(DiffXReader, data):
    return list(DiffXReader(SymStream(data)))


def writer_internals_missing():
    """None if DiffXWriter still keeps its state the way the inductive steps construct it (a list `_stack` of dicts
    with an 'encoding' key and a str `_prev_section`, private section helpers present), else the reason the steps
    are skipped (the public-API obligations still run)"""
    import io
    import os
    from pydiffx.writer import DiffXWriter
    if os.environ.get('SX_FORCE_SKIP_STEPS'):
        return 'SX_FORCE_SKIP_STEPS set (experiment: how much do the public-API obligations catch alone?)'
    for a in ('_new_container_section', '_new_content_section'):
        if not hasattr(DiffXWriter, a):
            return 'DiffXWriter.%s not found in the current source' % a
    try:
        w = DiffXWriter(io.BytesIO(), encoding='utf-16')
        w.new_change()
        st, prev = w._stack, w._prev_section
        if not (isinstance(st, list) and st and all(isinstance(f, dict) and 'encoding' in f for f in st)
                and isinstance(prev, str)):
            return 'DiffXWriter._stack / _prev_section do not have the shape the step constructs'
    except AttributeError as e:
        return 'DiffXWriter internals renamed (%s)' % e
    return None


def sym_meta(ctx, N):
    """a JSON object with a symbolic string (1..N arbitrary code points: quotes, backslashes, controls, surrogates,
    non-BMP) and a symbolic integer inside a concrete structure (keys concrete: sort_keys compares them)"""
    from sx.core import sym_int
    n = ctx.choose(1, N, 'meta.n')
    t = sym_str(ctx, 'mt', n)
    i = sym_int(ctx, 'mi', -1, 1)
    shape = ctx.pick('meta.shape', ['flat', 'nested'])
    if shape == 'flat':
        return {'path': t, 'n': i}
    return {'a': {'b': [t, i, None]}, 'z': t}


def json_normal_form(md):
    """what 'equal as a JSON value' means: the value after one trip through JSON text (a high surrogate directly
    followed by a low one becomes one character -- behaviour of the json library, not of pydiffx)"""
    import json
    from sx import instrument
    return instrument.h_call(json.loads, instrument.h_call(json.dumps, md))
