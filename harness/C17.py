"""C17 -- reader output does not depend on stream chunking or header alignment."""
import io as _io

import z3

from sx import instrument
from sx.absstream import AbsBytes, AbsParts, AbsStream, AccIO
from sx.core import Ctx, PathTimeout, SInt, conj, lift, mk_seq, model_bytes, sym_bytes
from sx.run import Ob, ok, skip, verdict, viol
from sx.streams import SymStream

REPLAY_TIMEOUT = 10
HANG_IS_VIOLATION = True      # re-reading the delimiter forever is a re-read byte

ASSUMPTIONS = [
    'abstract obligation: the delimiter search issues at most U stream reads (stated bound; more reads are cut and '
    'counted); stream length T, start position, delimiter position and block size are unbounded symbolic integers',
    'byte-level obligation: diff content has no CR/LF except its final LF (newline handling is C03/C16)',
]


def _hook(f, a, k):
    if f is _io.BytesIO and _hook.active:
        return True, AccIO(*a)
    return False, None


_hook.active = False


def block_knob():
    """how the read-ahead block size of the *current* DiffXReader._read_until can be varied: ('param', name) for a
    parameter with an int default, ('attr', name) for an int class attribute the function reads, ('global', name) for
    an int module constant it reads; None when no such knob is visible (then only the natural block size is run)"""
    import inspect
    import os
    import pydiffx.reader as R
    if os.environ.get('SX_FORCE_SKIP_STEPS'):
        return None
    f = getattr(R.DiffXReader, '_read_until', None)
    if f is not None:
        try:
            for name, prm in inspect.signature(f).parameters.items():
                if type(prm.default) is int and prm.default > 1:
                    return ('param', name)
        except (TypeError, ValueError):
            pass
    # an int constant on the class / in the module that some method of the reader reads
    used = set()
    for v in vars(R.DiffXReader).values():
        code = getattr(v, '__code__', None)
        if code is not None:
            used.update(code.co_names)
    for nm, v in vars(R.DiffXReader).items():
        if type(v) is int and v > 1 and nm in used:
            return ('attr', nm)
    for nm, v in vars(R).items():
        if type(v) is int and v > 1 and nm in used and any(t in nm.upper() for t in ('CHUNK', 'BLOCK', 'SIZE', 'BUF')):
            return ('global', nm)
    return None


def natural_block():
    """the implementation's own read-ahead block size (value behind block_knob()), or None"""
    import inspect
    import pydiffx.reader as R
    knob = block_knob()
    if knob is None:
        return None
    kind, name = knob
    try:
        if kind == 'param':
            return inspect.signature(R.DiffXReader._read_until).parameters[name].default
        if kind == 'attr':
            return getattr(R.DiffXReader, name)
        return vars(R)[name]
    except Exception:
        return None


def block_lengths(static, quick):
    """header lengths around multiples of the read-ahead block: the static list (block 96 of the pinned source) plus
    the neighbourhood of the current source's block size, if it can be seen"""
    k = natural_block()
    out = set(static)
    if type(k) is int and 2 <= k <= 4096:
        out |= {k - 2, k - 1, k, k + 1, 2 * k - 1, 2 * k} if quick else \
            {k - 3, k - 2, k - 1, k, k + 1, k + 2, 2 * k - 2, 2 * k - 1, 2 * k, 2 * k + 1, 3 * k - 1, 3 * k, 4 * k - 1, 4 * k}
    return sorted(x for x in out if x > 0)


class forced_block(object):
    """context manager: DiffXReader instance `rd` reads ahead in blocks of k (k may be symbolic)"""

    def __init__(self, rd, k):
        self.rd, self.k = rd, k
        self.knob = block_knob()

    def __enter__(self):
        import pydiffx.reader as R
        kind, name = self.knob
        rd, k = self.rd, self.k
        if kind == 'param':
            orig = rd._read_until
            self.restore = orig

            def wrapped(*a, **kw):
                kw[name] = k
                return orig(*a, **kw)
            rd._read_until = wrapped
        elif kind == 'attr':
            setattr(rd, name, k)
            if getattr(rd, name) is not k:        # pragma: no cover
                raise RuntimeError('cannot shadow %s' % name)
        else:
            self.saved = vars(R)[name]
            setattr(R, name, k)
        return self

    def call(self, *a):
        """rd._read_until(*a) with the forced block size"""
        return self.rd._read_until(*a)

    def __exit__(self, *exc):
        import pydiffx.reader as R
        kind, name = self.knob
        if kind == 'global':
            setattr(R, name, self.saved)
        return False


def setup():
    if _hook not in instrument.CALL_HOOKS:
        instrument.CALL_HOOKS.append(_hook)


def ob_read_until(ctx, U):
    """real _read_until on the interval-abstract stream: k, T, pos0, d symbolic"""
    from pydiffx.reader import DiffXReader
    st = AbsStream(ctx, b'\n', U)
    k = z3.Int('k')
    ctx.assume(k >= 1)
    rd = DiffXReader(st)
    _hook.active = True
    try:
        with forced_block(rd, SInt(k)) as fb:
            res = fb.call(b'\n')
    finally:
        _hook.active = False
    wit = lambda m: {'T': m.eval(st.T, True).as_long(), 'pos0': m.eval(st.pos0, True).as_long(),
                     'd': m.eval(st.d, True).as_long(), 'k': m.eval(k, True).as_long()}
    if not isinstance(res, tuple) or len(res) != 2:
        return viol('result-shape', wit(ctx.model()))
    parts, eof = res
    if isinstance(parts, AbsBytes):
        parts = AbsParts([parts])
    if type(parts) is bytes and not parts:
        parts = AbsParts([])
    if not isinstance(parts, AbsParts):
        return viol('result-type', wit(ctx.model()))
    props = []
    cur = st.pos0
    for p in parts.parts:
        # zero-length chunks may sit anywhere
        props.append(('contiguous', z3.Or(p.a == p.b, p.a == cur)))
        props.append(('chunk-order', p.b >= p.a))
        cur = z3.If(p.a == p.b, cur, p.b)
    found = st.d != -1
    eofb = bool(eof)
    props.append(('covers-exactly-up-to-delimiter',
                  z3.If(found, cur == st.d + 1, cur == st.T)))
    props.append(('stream-position-after', z3.If(found, st.pos == st.d + 1, st.pos == st.T)))
    props.append(('eof-flag', z3.If(found, z3.BoolVal(not eofb), z3.BoolVal(eofb))))
    return verdict(ctx, props, witness=wit, sample=lambda m: dict(wit(m), reads=st.nreads))


FILE_HEAD = b'#diffx: version=1.0'
AFTER = b'#..file:\n#...meta: length=3\n{}\n'


LAYOUTS = {  # name -> (newline of header lines, index of the padded header among the records)
    'lf/first': (b'\n', 0), 'lf/change': (b'\n', 1), 'lf/diff': (b'\n', 4),
    'crlf/first': (b'\r\n', 0), 'crlf/change': (b'\r\n', 1), 'crlf/diff': (b'\r\n', 4),
}


def _file(pad, content, layout='lf/first'):
    """(bytes before the content, bytes after); one header carries an unknown option sized so that the header is
    `pad` bytes longer; content sections are framed by length alone, so only header lines carry the layout's newline"""
    nl, where = LAYOUTS[layout]
    heads = [FILE_HEAD, b'#.change:', b'#..file:', b'#...meta: length=3', b'#...diff: length=%d' % len(content)]
    if pad >= 5:
        h = heads[where]
        heads[where] = h + (b' ' if h.endswith(b':') else b', ') + b'x=' + b'a' * (pad - (3 if h.endswith(b':') else 4))
    pre = heads[0] + nl + heads[1] + nl + heads[2] + nl + heads[3] + nl + b'{}\n' + heads[4] + nl
    return pre, AFTER.replace(b'#..file:\n', b'#..file:' + nl).replace(b'length=3\n', b'length=3' + nl)


def _pad_value(pad, layout):
    if pad < 5:
        return None
    _nl, where = LAYOUTS[layout]
    return 'a' * (pad - (4 if where in (0, 4) else 3))


def ob_bytes(ctx, ks, pads, N, layouts=('lf/first',)):
    """whole reader, byte level: one header padded, block size k, symbolic diff content"""
    from pydiffx.reader import DiffXReader
    layout = ctx.pick('layout', list(layouts))
    k = ctx.pick('k', ks)
    pad = ctx.pick('pad', pads)
    n = ctx.choose(1, N, 'n')
    content = sym_bytes(ctx, 'c', n)
    el = lift(content).el
    for e in el[:-1]:
        ctx.assume(z3.And(e != 10, e != 13))
    ctx.assume(el[-1] == 10)
    pre, post = _file(pad, el, layout)
    data = mk_seq(tuple(pre) + tuple(el) + tuple(post), bytes)
    rd = DiffXReader(SymStream(data))
    wit = lambda m: {'data': model_bytes(m, data), 'k': k, 'content': model_bytes(m, content), 'pad': pad, 'layout': layout}
    try:
        with forced_block(rd, k):
            recs = list(rd)
    except PathTimeout:
        return viol('nontermination', wit(ctx.model()))
    except Exception as e:
        return viol('raised:%s' % type(e).__name__, wit(ctx.model()))
    ids = [r['section'] for r in recs]
    exp_ids = ['diffx', '.change', '..file', '...meta', '...diff', '..file', '...meta']
    if ids != exp_ids:
        return viol('records', wit(ctx.model()))
    props = [('diff-content', lift(content).eq_cond(recs[4].get('diff'))),
             ('diff-length', recs[4]['options'].get('length') == n),
             ('lines', [r['line'] for r in recs] == [0, 1, 2, 3, 5, 7, 8]),
             ('pad-option', recs[LAYOUTS[layout][1]]['options'].get('x') == _pad_value(pad, layout)),
             ('no-stray-option', all('x' not in r['options'] for i, r in enumerate(recs) if i != LAYOUTS[layout][1] or pad < 5))]
    return verdict(ctx, props, witness=wit, sample=lambda m: {'layout': layout, 'k': k, 'pad': pad, 'content': model_bytes(m, content)})


def ob_public(ctx, pads, N, layouts=('lf/first',)):
    """public API only (the implementation's own block size): header padded through every alignment"""
    from pydiffx.reader import DiffXReader
    layout = ctx.pick('layout', list(layouts))
    pad = ctx.pick('pad', pads)
    n = ctx.choose(1, N, 'n')
    content = sym_bytes(ctx, 'c', n)
    el = lift(content).el
    for e in el[:-1]:
        ctx.assume(z3.And(e != 10, e != 13))
    ctx.assume(el[-1] == 10)
    pre, post = _file(pad, el, layout)
    data = mk_seq(tuple(pre) + tuple(el) + tuple(post), bytes)
    wit = lambda m: {'data': model_bytes(m, data), 'k': None, 'content': model_bytes(m, content), 'pad': pad, 'layout': layout}
    try:
        recs = list(DiffXReader(SymStream(data)))
    except PathTimeout:
        return viol('nontermination', wit(ctx.model()))
    except Exception as e:
        return viol('raised:%s' % type(e).__name__, wit(ctx.model()))
    if [r['section'] for r in recs] != ['diffx', '.change', '..file', '...meta', '...diff', '..file', '...meta']:
        return viol('records', wit(ctx.model()))
    return verdict(ctx, [('diff-content', lift(content).eq_cond(recs[4].get('diff'))),
                         ('pad-option', recs[LAYOUTS[layout][1]]['options'].get('x') == _pad_value(pad, layout))], witness=wit,
                   sample=lambda m: {'layout': layout, 'pad': pad, 'content': model_bytes(m, content)})


class PeekStream(SymStream):
    """a buffered binary stream as io.BufferedReader presents itself: read(n) is exact, and there is a peek(n) that
    'may return fewer or more bytes than requested' (io documentation) -- how many is a solver-independent choice of
    the exploration, recorded for the replay"""

    def __init__(self, data, ctx):
        SymStream.__init__(self, data)
        self._ctx = ctx
        self.peeks = []

    def peek(self, n=0):
        self._chk()
        avail = max(0, len(self.el) - self.pos)
        if avail == 0:
            self.peeks.append(0)
            return b''
        n = int(n) if n else 1
        opts = sorted({1, 2, max(1, n - 1), n, n + 3, max(1, n // 2)})
        k = min(avail, self._ctx.pick('peek%d' % len(self.peeks), opts))
        self.peeks.append(k)
        return mk_seq(self.el[self.pos:self.pos + k], bytes)


def ob_peekable(ctx, pads, N):
    """the stream offers peek() (files opened with open(), sys.stdin.buffer, gzip ...): if the reader uses it, whatever
    amounts peek returns, the records are those of the document"""
    from pydiffx.reader import DiffXReader
    pad = ctx.pick('pad', pads)
    n = ctx.choose(1, N, 'n')
    content = sym_bytes(ctx, 'c', n)
    el = lift(content).el
    for e in el[:-1]:
        ctx.assume(z3.And(e != 10, e != 13))
    ctx.assume(el[-1] == 10)
    pre, post = _file(pad, el)
    data = mk_seq(tuple(pre) + tuple(el) + tuple(post), bytes)
    st = PeekStream(data, ctx)
    wit = lambda m: {'data': model_bytes(m, data), 'k': None, 'content': model_bytes(m, content), 'pad': pad,
                     'peeks': list(st.peeks)}
    try:
        recs = list(DiffXReader(st))
    except PathTimeout:
        return viol('nontermination', wit(ctx.model()))
    except Exception as e:
        return viol('raised:%s' % type(e).__name__, wit(ctx.model()))
    if [r['section'] for r in recs] != ['diffx', '.change', '..file', '...meta', '...diff', '..file', '...meta']:
        return viol('records', wit(ctx.model()))
    return verdict(ctx, [('diff-content', lift(content).eq_cond(recs[4].get('diff')))], witness=wit,
                   sample=lambda m: {'pad': pad, 'peeks': list(st.peeks)[:6]})


def ob_offset(ctx, offsets, N):
    """the stream handed to the reader is already positioned past k bytes of other data (a DiffX document embedded
    in a larger stream): records must be those of the document"""
    from pydiffx.reader import DiffXReader
    k = ctx.pick('offset', offsets)
    pad = ctx.pick('pad', [0, 7, 60, 77])
    n = ctx.choose(1, N, 'n')
    content = sym_bytes(ctx, 'c', n)
    el = lift(content).el
    for e in el[:-1]:
        ctx.assume(z3.And(e != 10, e != 13))
    ctx.assume(el[-1] == 10)
    pre, post = _file(pad, el)
    junk = (b'Received: by mail\n#diffx: not this one\n' * 20)[:k]
    data = mk_seq(tuple(junk) + tuple(pre) + tuple(el) + tuple(post), bytes)
    st = SymStream(data)
    st.seek(k)
    wit = lambda m: {'data': model_bytes(m, data), 'k': None, 'content': model_bytes(m, content), 'pad': pad, 'offset': k}
    try:
        recs = list(DiffXReader(st))
    except PathTimeout:
        return viol('nontermination', wit(ctx.model()))
    except Exception as e:
        return viol('raised:%s' % type(e).__name__, wit(ctx.model()))
    if [r['section'] for r in recs] != ['diffx', '.change', '..file', '...meta', '...diff', '..file', '...meta']:
        return viol('records', wit(ctx.model()))
    return verdict(ctx, [('diff-content', lift(content).eq_cond(recs[4].get('diff')))], witness=wit,
                   sample=lambda m: {'offset': k, 'pad': pad, 'content': model_bytes(m, content)})


def obligations(tier):
    from pydiffx.reader import DiffXReader
    obs = []
    quick = tier == 'quick'
    knob = block_knob()
    if hasattr(DiffXReader, '_read_until') and knob is not None:
        U = 4 if quick else 12
        obs.append(Ob('read_until[abstract]', ob_read_until, dict(U=U), must_reach=['DiffXReader._read_until'], allow_cut=True, may_decline=True,
                      desc='real _read_until on the interval-abstract stream; block size k>=1, stream length, start '
                           'and delimiter position are unbounded symbolic integers; at most %d reads' % U,
                      bounds={'max_reads_per_search': U, 'k': '>=1 (symbolic)', 'T,pos0,d': 'symbolic'}))
    else:
        obs.append(('skipped', 'read_until[abstract]', 'DiffXReader._read_until not found in the current source (or no '
                    'way to vary its block size): the line search cannot be run in isolation on the abstract stream'))
    if knob is not None:
        ks = [1, 2, 3, 4, 5, 7, 8, 16, 19, 20, 21, 95, 96, 97, 100000] if quick else \
            list(range(1, 41)) + [63, 64, 65, 95, 96, 97, 191, 192, 193, 100000]
        pads = list(range(0, 30)) if quick else list(range(0, 200))
        lays = ['lf/first', 'crlf/change', 'crlf/diff'] if quick else sorted(LAYOUTS)
        obs.append(Ob('reader[bytes,k]', ob_bytes, dict(ks=ks, pads=pads, N=2 if quick else 3, layouts=lays),
                      must_reach=['DiffXReader._read_until', 'DiffXReader._read_content'], path_timeout=8,
                      desc='whole reader on a 2-file skeleton; one header (first / .change / the diff header right before the '
                           'content, LF or CRLF header lines) padded by an unknown option; read-ahead '
                           'block size forced to k (through %s %s of the current source); diff content symbolic' % knob,
                      bounds={'k': ks, 'pad': [pads[0], pads[-1]], 'content_len': [1, 2 if quick else 3], 'layouts': lays}))
    else:
        obs.append(('skipped', 'reader[bytes,k]', 'no parameter / constant found through which the read-ahead block '
                    'size can be varied; the public obligations below run with the implementation\'s own block size'))
    pads = list(range(0, 30)) + list(range(70, 125)) if quick else list(range(0, 300))
    obs.append(Ob('reader[public]', ob_public, dict(pads=pads, N=2 if quick else 3, layouts=sorted(LAYOUTS)),
                  must_reach=['DiffXReader.iter_sections'], path_timeout=8,
                  desc='public iterator with the implementation\'s own block size; one header (first / .change / diff header, '
                       'LF or CRLF header lines) padded through every alignment in the stated range; diff content symbolic',
                  bounds={'pad': [pads[0], pads[-1]], 'content_len': [1, 2 if quick else 3], 'layouts': sorted(LAYOUTS)}))
    ppads = [0, 3, 60, 80, 90] if quick else [0, 1, 2, 3, 30, 60, 70, 80, 85, 90, 95, 100, 180]
    obs.append(Ob('reader[peekable stream]', ob_peekable, dict(pads=ppads, N=2), must_reach=['DiffXReader.iter_sections'],
                  path_timeout=8, max_paths=200000,
                  desc='the stream also offers peek() returning fewer / more bytes than asked (each amount an explored '
                       'choice); vacuous branching if the reader never peeks', bounds={'pad': ppads, 'content_len': [1, 2]}))
    offs = [0, 1, 2, 3, 17, 95, 96, 97, 150] if quick else list(range(0, 40)) + [95, 96, 97, 191, 192, 193, 500]
    obs.append(Ob('reader[pre-positioned stream]', ob_offset, dict(offsets=offs, N=2 if quick else 3),
                  must_reach=['DiffXReader.iter_sections'], path_timeout=8,
                  desc='the reader is handed a stream already positioned at offset k (document embedded after other data)',
                  bounds={'offsets': offs if quick else [0, 500], 'content_len': [1, 2 if quick else 3]}))
    return obs


def validate(tier):
    """the abstract stream against io.BytesIO on concrete instances: the real
    _read_until must return the same bytes/position on both"""
    import io
    from pydiffx.reader import DiffXReader
    n = 0
    if not hasattr(DiffXReader, '_read_until') or block_knob() is None:
        return 0
    for data in [b'', b'abc', b'abc\ndef', b'\n', b'a\n', b'ab\ncd\nef']:
        for k in (1, 2, 3, 4, 100):
            for pos0 in range(0, len(data) + 1):
                fp = io.BytesIO(data)
                fp.seek(pos0)
                with forced_block(DiffXReader(fp), k) as fb:
                    exp = fb.call(b'\n')
                exp_pos = fp.tell()
                ctx = Ctx(())
                Ctx.cur = ctx
                try:
                    st = AbsStream(ctx, b'\n', 1000)
                    ctx.assume(st.T == len(data))
                    ctx.assume(st.pos0 == pos0)
                    d = data.find(b'\n', pos0)
                    ctx.assume(st.d == d)
                    _hook.active = True
                    try:
                        with forced_block(DiffXReader(st), k) as fb:
                            parts, eof = fb.call(b'\n')
                    finally:
                        _hook.active = False
                    m = ctx.model()
                    got = b''
                    if isinstance(parts, AbsBytes):
                        parts = AbsParts([parts])
                    if type(parts) is bytes and not parts:
                        parts = AbsParts([])
                    for p in parts.parts:
                        got += data[m.eval(p.a, True).as_long():m.eval(p.b, True).as_long()]
                    got_pos = m.eval(st.pos, True).as_long()
                finally:
                    Ctx.cur = None
                assert (got, bool(eof), got_pos) == (exp[0], exp[1], exp_pos), (data, k, pos0, got, eof, got_pos, exp, exp_pos)
                n += 1
    return n


def replay(ob, label, w):
    import io
    from pydiffx.reader import DiffXReader
    if ob.startswith('read_until'):
        T, pos0, d, k = w['T'], w['pos0'], w['d'], w['k']
        if T > 5000000:
            return {'violated': False, 'error': 'witness too large to materialise'}
        data = bytearray(b'x' * T)
        if d >= 0:
            data[d] = 10
        fp = io.BytesIO(bytes(data))
        fp.seek(pos0)
        try:
            with forced_block(DiffXReader(fp), k) as fb:
                res, eof = fb.call(b'\n')
        except Exception as e:
            return {'violated': True, 'signature': 'read_until:raised:%s' % type(e).__name__, 'detail': str(e)}
        end = d + 1 if d >= 0 else T
        exp = bytes(data[pos0:end])
        bad = None
        if res != exp:
            bad = 'returned %d bytes, expected %d' % (len(res), len(exp))
        elif fp.tell() != end:
            bad = 'stream position %d, expected %d' % (fp.tell(), end)
        elif bool(eof) != (d < 0):
            bad = 'eof flag %r' % (eof,)
        return {'violated': bad is not None, 'signature': 'read_until:post', 'detail': '%s for %r' % (bad, w)}
    data = w['data']
    if w.get('peeks') is not None:
        class ScriptedPeek(io.BytesIO):
            script = list(w['peeks'])

            def peek(self, n=0):
                k = self.script.pop(0) if self.script else (n or 1)
                pos = self.tell()
                out = self.read(k)
                self.seek(pos)
                return out
        stream = ScriptedPeek(data)
    else:
        stream = io.BytesIO(data)
    stream.seek(w.get('offset') or 0)
    rd = DiffXReader(stream)
    try:
        if w.get('k') is not None:
            with forced_block(rd, w['k']):
                recs = list(rd)
        else:
            recs = list(rd)
    except Exception as e:
        return {'violated': True, 'signature': 'chunking:raised:%s' % type(e).__name__, 'detail': str(e)}
    ids = [r['section'] for r in recs]
    if ids != ['diffx', '.change', '..file', '...meta', '...diff', '..file', '...meta'] or recs[4]['diff'] != w['content']:
        return {'violated': True, 'signature': 'chunking:records-differ',
                'detail': 'k=%r pad=%r ids=%r diff=%r expected content %r' % (w.get('k'), w['pad'], ids,
                                                                              recs[4].get('diff') if len(recs) > 4 else None, w['content'])}
    return {'violated': False}
