"""C04 -- encoding inheritance follows nesting: nearest ancestor wins, siblings never leak."""
import json

import z3

from sx import codecs_model, instrument
from sx.core import (Ctx, PathTimeout, SSeq, conj, disj, lift, mk_seq, model_bytes, model_str, neg, rng, seq_eq,
                     sym_bytes, sym_str)
from sx.instrument import value_eq
from sx.regex import nfa_formula
from sx.run import Ob, ok, skip, verdict, viol
from sx.streams import SymStream

from harness.rw import NL, bomless_newline, norm_text

ASSUMPTIONS = [
    'inductive steps: the pre-state is an arbitrary valid writer / reader state (section just written or read, and the '
    'effective encoding of every enclosing container drawn from the catalogue), so histories of any length are covered '
    'provided the state variables still exist under their names (else the step is skipped and C01 history bounds apply)',
    'encoding catalogue for the steps: utf-8, utf-16, latin-1, utf-32-be (distinguishable on the symbolic content)',
    'reader step content = symbolic bytes followed by the LF of the expected codec, line_endings=unix declared',
]

CAT = ['utf-8', 'utf-16', 'latin-1', 'utf-32-be']
STALE_KW = [{}]
LEVEL = {'diffx': 0, '.preamble': 0, '.meta': 0, '.change': 1, '..preamble': 1, '..meta': 1, '..file': 2,
         '...meta': 2, '...diff': 2}
IDS = list(LEVEL)


def setup():
    instrument.install('ref')


def _chain(ctx, depth, cat):
    """effective encodings of the containers main[, change[, file]]"""
    chain = [ctx.pick('main.enc', cat)]
    for i in range(1, depth + 1):
        own = ctx.pick('anc%d.enc' % i, ['inherit'] + [c for c in cat if c != chain[-1]][:2])
        chain.append(chain[-1] if own == 'inherit' else own)
    return chain


# ------------------------------------------------------------------ writer step

def ob_writer_step(ctx, N):
    import ref.spec as S
    from pydiffx.writer import DiffXWriter
    s = ctx.pick('prev', IDS)
    chain = _chain(ctx, LEVEL[s], CAT[:3])
    t = ctx.pick('next', S.REF_HIER[s])
    own = ctx.pick('own', [None] + CAT[:3])
    w = DiffXWriter.__new__(DiffXWriter)
    st = SymStream()
    w.fp = st
    w._stack = [{'encoding': chain[0]}] + [{'encoding': e} for e in chain]
    w._prev_section = s
    kw = {} if own is None else {'encoding': own}
    wit_base = {'prev': s, 'chain': chain, 'next': t, 'own': own, 'prio': len(set(chain)) * 2 + (0 if own else 1)}
    parent_chain = chain[:LEVEL[t] + (0 if t in S.CONTAINERS else 1)]
    if t in S.CONTAINERS:
        getattr(w, 'new_' + t.lstrip('.'))(**kw)
        exp_stack = [chain[0]] + chain[:LEVEL[t]] + [own or chain[LEVEL[t] - 1]]
        got = [f.get('encoding') for f in w._stack]
        props = [('stack-after-container', got == exp_stack), ('prev_section', w._prev_section == t),
                 ('header', st.value() == b'#%s:%s\n' % (t.encode(), (b' encoding=' + own.encode()) if own else b''))]
        return verdict(ctx, props, witness=lambda m: dict(wit_base, kind='writer-step'),
                       sample=lambda m: dict(wit_base, stack=got))
    exp_enc = S.effective_encoding(parent_chain, own, t)
    n = ctx.choose(1, N, 'n')
    if t.endswith('preamble'):
        text = sym_str(ctx, 't', n)
        wit = lambda m: dict(wit_base, kind='writer-step', text=model_str(m, text))
        try:
            w.write_preamble(text, indent=0, line_endings='unix', **kw)
        except UnicodeEncodeError:
            return skip('unencodable in the effective codec')
        out = lift(st.value())
        i = out.find(b'\n')
        content = mk_seq(out.el[i + 1:], bytes)
        try:
            back = codecs_model.decode(content, exp_enc)
        except UnicodeDecodeError:
            return viol('content-not-in-expected-encoding', wit(ctx.model()))
        exp, _ = norm_text(text, 'unix')
        props = [('content-encoded-with-effective-encoding', seq_eq(back, exp)),
                 ('stack-unchanged', [f.get('encoding') for f in w._stack] == [chain[0]] + chain)]
        return verdict(ctx, props, witness=wit, sample=lambda m: dict(wit(m), expected_encoding=exp_enc))
    if t.endswith('meta'):
        md = {'k': 'é€'}
        w.write_meta(md, **kw)
        out = st.value()
        content = out[out.index(b'\n') + 1:]
        txt = json.dumps(md, indent=4, separators=(',', ': '), sort_keys=True) + '\n'
        try:
            exp = txt.encode(exp_enc)
        except UnicodeEncodeError:
            return skip('unencodable')
        # the appended newline carries no BOM; the text does where the codec emits one
        exp2 = json.dumps(md, indent=4, separators=(',', ': '), sort_keys=True).encode(exp_enc) + bomless_newline('unix', exp_enc)
        return verdict(ctx, [('meta-encoded-with-effective-encoding', content == exp2)],
                       witness=lambda m: dict(wit_base, kind='writer-step'), sample=lambda m: dict(wit_base, expected_encoding=exp_enc))
    # diff: never inherits
    data = sym_bytes(ctx, 'd', n)
    for e in data.el:
        ctx.assume(z3.And(e != 10, e != 13, e != 0))
    wit = lambda m: dict(wit_base, kind='writer-step', content=model_bytes(m, data))
    w.write_diff(data, **kw)
    out = lift(st.value())
    i = out.find(b'\n')
    content = mk_seq(out.el[i + 1:], bytes)
    exp = mk_seq(data.el + tuple(bomless_newline('unix', own)), bytes)
    return verdict(ctx, [('diff-newline-in-own-encoding-only', seq_eq(content, exp))], witness=wit,
                   sample=lambda m: dict(wit(m), expected_encoding=own))


# ------------------------------------------------------------------ reader step

def ob_reader_step(ctx, N, STEP):
    import ref.spec as S
    import pydiffx.reader as R
    from pydiffx.sections import VALID_SECTION_STATES as TABLE
    s = ctx.pick('prev', [None] + IDS)
    if s is None:
        chain, encodings, level, valid = [], [None], 0, {'diffx'}
        nxts = ['diffx']
    else:
        chain = _chain(ctx, LEVEL[s], CAT)
        encodings, level, valid = [None] + chain, LEVEL[s], TABLE[s]
        nxts = S.REF_HIER[s]
    t = ctx.pick('next', nxts)
    own = ctx.pick('own', [None] + CAT)
    opts = []
    if own:
        opts.append(b'encoding=' + own.encode())
    wit_base = {'kind': 'reader-step', 'prev': s, 'chain': chain, 'next': t, 'own': own,
                'prio': len(set(chain)) * 2 + (0 if own else 1)}
    content = b''
    exp_enc = None
    if t in S.CONTENT:
        exp_enc = S.effective_encoding(chain[:LEVEL[t] + 1], own, t)
        nl = bomless_newline('unix', exp_enc)
        if t.endswith('meta'):
            # JSON validity is not the subject: concrete non-ASCII JSON, only the codec varies
            content = '{"k": "é"}'.encode(exp_enc or 'ascii', 'backslashreplace') + nl
        else:
            n = ctx.choose(0, N, 'n')
            body = sym_bytes(ctx, 'c', n)
            content = mk_seq((tuple(body.el) if n else ()) + tuple(nl), bytes)
        opts.append(b'length=%d' % len(content))
        opts.append(b'line_endings=unix')
    if t == 'diffx':
        opts.append(b'version=1.0')
    hdr = b'#' + t.encode() + b':' + ((b' ' + b', '.join(opts)) if opts else b'') + b'\n'
    data = mk_seq(tuple(hdr) + tuple(lift(content).el if len(content) else ()), bytes)
    rd = R.DiffXReader(SymStream(data))
    rd._file_newlines = b'\n' if s is not None else None
    rd._linenum = 7
    ys = []
    wit = lambda m: dict(wit_base, data=model_bytes(m, data))
    from sx.extract import StaleUse, stale_locals
    try:
        kind, loc = STEP(self=rd, valid_sections=valid, encodings=list(encodings), prev_container_level=level,
                         _sx_yield_=ys, **STALE_KW[0])
        raised = None
    except StaleUse:
        # the loop body looked at a local it had not assigned in this iteration (a value left over from the
        # previous section): whatever follows depends on the history
        return viol('stale-local-read', dict(wit(ctx.model()), prio=len(set(chain)) * 2 + 1))
    except PathTimeout:
        raise
    except Exception as e:
        raised = e
    if t in S.CONTAINERS:
        if raised is not None:
            return viol('container-rejected:%s' % type(raised).__name__, wit(ctx.model()))
        lt = LEVEL[t]
        exp_stack = [None] + chain[:lt] + [own or (chain[lt - 1] if lt else None)]
        props = [('Inv_r:encodings', loc['encodings'] == exp_stack),
                 ('Inv_r:prev_container_level', loc['prev_container_level'] == lt),
                 ('Inv_r:valid_sections', loc['valid_sections'] == TABLE[t]),
                 ('yielded', len(ys) == 1 and ys[0]['section'] == t)]
        return verdict(ctx, props, witness=wit, sample=lambda m: dict(wit_base, encodings_after=loc['encodings']))
    # content section: reference reading under the expected encoding
    try:
        ref_val = codecs_model.decode(content, exp_enc) if (exp_enc and t != '...diff') else content
        # well-formed content ends with the newline *as text* (e.g. a BOM may flip the byte order)
        ref_ok = bool(lift(ref_val).endswith('\n' if (exp_enc and t != '...diff') else nl)) if len(ref_val) else False
    except UnicodeDecodeError:
        ref_ok = False
    if raised is not None:
        if ref_ok:
            return viol('valid-content-rejected:%s' % type(raised).__name__, wit(ctx.model()))
        return ok(note='both reject')
    if not ref_ok:
        return viol('content-accepted-under-another-encoding', wit(ctx.model()))
    rec = ys[0] if ys else {}
    key = 'text' if t.endswith('preamble') else ('metadata' if t.endswith('meta') else 'diff')
    props = [('Inv_r:encodings-unchanged', loc['encodings'] == encodings),
             ('Inv_r:valid_sections', loc['valid_sections'] == TABLE[t]),
             ('Inv_r:prev_container_level', loc['prev_container_level'] == level)]
    if key != 'metadata':
        props.append(('content-decoded-with-effective-encoding', seq_eq(rec.get(key), ref_val)))
    else:
        props.append(('metadata-decoded-with-effective-encoding', rec.get(key) == {'k': 'é'}))
    return verdict(ctx, props, witness=wit, sample=lambda m: dict(wit(m), expected_encoding=exp_enc))


def ob_reader_names(ctx, STEP, N):
    """the encoding *name* declared on a container reaches the stack verbatim (symbolic spelling)"""
    import pydiffx.reader as R
    from pydiffx.sections import VALID_SECTION_STATES as TABLE
    n = ctx.choose(1, N, 'len')
    name = sym_bytes(ctx, 'e', n)
    alpha = lambda c: z3.Or(rng(c, 48, 57), rng(c, 65, 90), rng(c, 97, 122), c == 45, c == 95, c == 46, c == 47)
    for c in name.el:
        ctx.assume(alpha(c))
    # names Python's int() would convert are outside C04/C15 ("not purely numeric")
    ctx.assume(neg(nfa_formula(rb'[+-]?[0-9]+(?:_[0-9]+)*', name.el)))
    t = ctx.pick('container', ['.change', '..file'])
    prev = {'.change': 'diffx', '..file': '.change'}[t]
    data = mk_seq(tuple(b'#' + t.encode() + b': encoding=') + name.el + (10,), bytes)
    rd = R.DiffXReader(SymStream(data))
    rd._file_newlines = b'\n'
    rd._linenum = 3
    enc0 = [None, 'utf-8'] + (['utf-8'] if t == '..file' else [])
    ys = []
    wit = lambda m: {'kind': 'reader-names', 'data': model_bytes(m, data), 'container': t}
    try:
        kind, loc = STEP(self=rd, valid_sections=TABLE[prev], encodings=list(enc0), prev_container_level=LEVEL[prev],
                         _sx_yield_=ys)
    except Exception as e:
        return viol('raised:%s' % type(e).__name__, wit(ctx.model()))
    top = loc['encodings'][-1]
    want = mk_seq([z3.ZeroExt(24, e) for e in name.el], str)
    return verdict(ctx, [('declared-name-verbatim', seq_eq(top, want) if isinstance(top, (str, SSeq)) else False),
                         ('depth', len(loc['encodings']) == LEVEL[t] + 2)], witness=wit,
                   sample=lambda m: dict(wit(m), name=model_bytes(m, name)))


def _extract():
    import os
    from sx.extract import loop_step
    import pydiffx.reader as R
    if os.environ.get('SX_FORCE_SKIP_STEPS'):
        return None, 'SX_FORCE_SKIP_STEPS set (experiment: how much do the public-API obligations catch alone?)'
    try:
        step, info = loop_step(R.DiffXReader.iter_sections)
    except Exception as e:
        return None, 'loop extraction failed: %s' % e
    need = {'valid_sections', 'encodings', 'prev_container_level'}
    if not need <= set(info['names']):
        return None, 'reader state variables renamed: missing %s' % sorted(need - set(info['names']))
    if info['test'] != 'True':
        return None, 'reader loop header changed: while %s' % info['test']
    from sx.extract import stale_locals
    STALE_KW[0] = stale_locals(info, need | {'_sx_yield_'})
    pre = ' ; '.join(info['pre'])
    for frag in ('valid_sections = {Section.MAIN}', 'encodings = [None]', 'prev_container_level = 0'):
        if frag not in pre:
            return None, 'reader initial state changed (%s not found)' % frag
    return step, None


def obligations(tier):
    from pydiffx.writer import DiffXWriter
    quick = tier == 'quick'
    obs = []
    from harness.rw import writer_internals_missing
    missing = writer_internals_missing()
    if missing is None:
        obs.append(Ob('writer-step', ob_writer_step, dict(N=2 if quick else 3),
                      must_reach=['DiffXWriter._new_container_section', 'DiffXWriter._prepare_content'],
                      desc='one writer call from an arbitrary valid writer state (_prev_section in 9 ids, _stack with '
                           'symbolically chosen effective encodings): bytes written decode under the reference '
                           'effective encoding to norm(text); stack afterwards as the reference says',
                      bounds={'text_len': [1, 2 if quick else 3], 'catalogue': CAT[:3]}))
    else:
        obs.append(('skipped', 'writer-step', missing))
    step, why = _extract()
    if step is None:
        obs.append(('skipped', 'reader-step', why))
    else:
        obs.append(Ob('reader-step', ob_reader_step, dict(N=2 if quick else 4, STEP=step),
                      desc='extracted loop body of iter_sections from an arbitrary valid reader state (Inv_r) on one '
                           'section: decoding uses own option else nearest declaring ancestor, diff never inherits, '
                           'post-state satisfies Inv_r', bounds={'content_len': [0, 2 if quick else 4], 'catalogue': CAT}))
        obs.append(Ob('reader-names', ob_reader_names, dict(STEP=step, N=3 if quick else 5),
                      desc='encoding name with symbolic spelling (value alphabet, not int-like) declared on a '
                           'container is pushed verbatim', bounds={'name_len': [1, 3 if quick else 5]}))
    # public API only (no internals named): bounded container histories, writer then reader.  Always run, so that a
    # refactoring which renames the state variables (steps skipped above) is still checked.
    from harness.C01 import ob_history
    K = 4 if quick else 5
    obs.append(Ob('history[public,K<=%d]' % K, ob_history, dict(K=K, encs=['utf-16', 'latin-1'], N=1),
                  must_reach=['DiffXReader.iter_sections'], path_timeout=30,
                  desc='container histories up to %d containers through the public writer and reader, each container '
                       'declaring an encoding or not, symbolic probe preambles and non-ASCII metadata' % K,
                  bounds={'containers': K, 'encodings': ['utf-16', 'latin-1']}))
    return obs


def validate(tier):
    """the extracted reader step, iterated on the repo's own example files, reproduces the real reader"""
    import glob
    import io
    import os
    import pydiffx.reader as R
    from sx.driver import REPO
    step, why = _extract()
    if step is None:
        return 0
    n = 0
    files = sorted(glob.glob(os.path.join(REPO, 'docs/spec/example-diffs/*.diff')))
    for f in files:
        data = open(f, 'rb').read()
        try:
            exp = list(R.DiffXReader(io.BytesIO(data)))
        except Exception:
            continue
        rd = R.DiffXReader(io.BytesIO(data))
        st = dict(valid_sections={'diffx'}, encodings=[None], prev_container_level=0)
        got = []
        while True:
            ys = []
            kind, loc = step(self=rd, _sx_yield_=ys, **st)
            got.extend(ys)
            if kind == 'break':
                break
            st = {k: loc[k] for k in st}
        assert got == exp, 'extracted step differs from the real reader on %s' % f
        n += 1
    return n


def replay(ob, label, w):
    """re-derive through the public API: build a history that reaches the pre-state"""
    import io
    import ref.spec as S
    from pydiffx.reader import DiffXReader
    from pydiffx.writer import DiffXWriter
    kind = w['kind']
    if kind == 'history':
        from harness.C01 import replay as c01_replay
        r = c01_replay(ob, label, w)
        if r.get('violated'):
            r['signature'] = 'inherit:' + r.get('signature', '')
        return r
    if kind == 'reader-names':
        name = w['data'].split(b'encoding=')[1].rstrip(b'\n').decode('ascii')
        t = w['container']
        pre = b'#diffx: encoding=utf-8, version=1.0\n' + (b'#.change:\n' if t == '..file' else b'')
        data = pre + w['data'] + (b'#..file:\n' if t == '.change' else b'') + b'#...meta: length=3\n{}\n'
        # observable through a probe: unknown codec -> error mentions it; otherwise decode succeeds with it
        try:
            recs = list(DiffXReader(io.BytesIO(data)))
            return {'violated': False}
        except LookupError as e:
            return {'violated': name not in str(e), 'signature': 'inherit:name-not-verbatim', 'detail': str(e)}
        except Exception as e:
            return {'violated': False, 'error': '%s: %s' % (type(e).__name__, e)}
    s, chain, t, own = w['prev'], w['chain'], w['next'], w['own']
    # containers leading to s with the declared encodings that produce `chain`
    calls = []
    if s is None or not chain:
        # initial state (nothing read/written yet): the step is the main header itself
        if w['kind'] == 'reader-step' and 'data' in w:
            try:
                recs = list(DiffXReader(io.BytesIO(w['data'])))
                return {'violated': False}
            except Exception as e:
                return {'violated': w['next'] == 'diffx', 'signature': 'inherit:main-header-rejected', 'detail': str(e)}
        return {'violated': False}
    decl = [chain[0]] + [chain[i] if chain[i] != chain[i - 1] else None for i in range(1, len(chain))]
    if s is not None and LEVEL[s] >= 1:
        calls.append(('new_change', {} if decl[1] is None else {'encoding': decl[1]}))
    if s is not None and LEVEL[s] >= 2:
        calls.append(('new_file', {} if decl[2] is None else {'encoding': decl[2]}))
    tail = {'diffx': [], '.preamble': [('write_preamble', ('p',), {})], '.meta': [('write_meta', ({'a': 1},), {})],
            '.change': [], '..preamble': [('write_preamble', ('p',), {})], '..meta': [('write_meta', ({'a': 1},), {})],
            '..file': [], '...meta': [('write_meta', ({'a': 1},), {})],
            '...diff': [('write_meta', ({'a': 1},), {}), ('write_diff', (b'd\n',), {})]}
    buf = io.BytesIO()
    try:
        wr = DiffXWriter(buf, encoding=chain[0] if chain else 'utf-8')
        for fn, k in calls:
            getattr(wr, fn)(**k)
        for fn, a, k in tail.get(s, []):
            getattr(wr, fn)(*a, **k)
        kw = {} if own is None else {'encoding': own}
        probe = w.get('text', 'é\n')
        if t in S.CONTAINERS:
            getattr(wr, 'new_' + t.lstrip('.'))(**kw)
            # probe the effective encoding of the new container with a metadata/preamble section
            if t == '.change':
                wr.write_preamble(probe, indent=0)
                wr.new_file()
            wr.write_meta({'k': 'é€'})
            exp_enc = own or ([chain[0]] + chain)[LEVEL[t]]
        elif t.endswith('preamble'):
            wr.write_preamble(probe, indent=0, line_endings='unix', **kw)
            exp_enc = S.effective_encoding(chain[:LEVEL[t] + 1], own, t)
        elif t.endswith('meta'):
            wr.write_meta({'k': 'é€'}, **kw)
            exp_enc = S.effective_encoding(chain[:LEVEL[t] + 1], own, t)
        else:
            wr.write_diff(w.get('content', b'x'), **kw)
            exp_enc = own
    except UnicodeEncodeError:
        return {'violated': False, 'error': 'unencodable probe'}
    except Exception as e:
        return {'violated': True, 'signature': 'inherit:writer-state-corrupt',
                'detail': 'valid call sequence rejected: %s: %s (after %r)' % (type(e).__name__, e, buf.getvalue()[-120:])}
    data = buf.getvalue()
    # (1) writer side: the last content section must be decodable with the expected encoding
    try:
        recs = list(DiffXReader(io.BytesIO(data)))
    except Exception as e:
        return {'violated': True, 'signature': 'inherit:reader-disagrees-with-writer',
                'detail': '%s: %s on %r' % (type(e).__name__, e, data[-200:])}
    last = [r for r in recs if r['section'] in S.CONTENT][-1]
    opts = last['options']
    raw_start = data.rfind(b'#' + last['section'].encode() + b':')
    raw = data[data.index(b'\n', raw_start) + 1:][:opts['length']]
    if last['section'] != '...diff':
        try:
            txt = raw.decode(exp_enc)
        except Exception:
            return {'violated': True, 'signature': 'inherit:writer-used-other-encoding',
                    'detail': 'section %s bytes %r are not %s' % (last['section'], raw, exp_enc)}
        got = last.get('text', None)
        if got is not None and got != txt:
            return {'violated': True, 'signature': 'inherit:reader-used-other-encoding',
                    'detail': 'section %s: reader %r, expected %r (%s)' % (last['section'], got, txt, exp_enc)}
        if 'metadata' in last and last['metadata'] != json.loads(txt):
            return {'violated': True, 'signature': 'inherit:reader-used-other-encoding', 'detail': repr(last)}
    else:
        if not raw.endswith(bomless_newline('unix', exp_enc)) or (exp_enc is None and raw.endswith(b'\x00')):
            return {'violated': True, 'signature': 'inherit:diff-inherited-encoding', 'detail': repr(raw)}
    if w['kind'] == 'reader-step' and 'data' in w:
        return _replay_reader_bytes(w, calls, tail, S)
    return {'violated': False}


def _replay_reader_bytes(w, calls, tail, S):
    """the reader-step witness bytes appended to a concrete history reaching the pre-state"""
    import io
    from pydiffx.reader import DiffXReader
    from pydiffx.writer import DiffXWriter
    s, chain = w['prev'], w['chain']
    if s is None:
        return {'violated': False}
    buf = io.BytesIO()
    wr = DiffXWriter(buf, encoding=chain[0])
    for fn, k in calls:
        getattr(wr, fn)(**k)
    for fn, a, k in tail.get(s, []):
        getattr(wr, fn)(*a, **k)
    data = buf.getvalue() + w['data']
    t, own = w['next'], w['own']
    exp_enc = S.effective_encoding(chain[:LEVEL[t] + 1], own, t) if t in S.CONTENT else None
    try:
        recs = list(DiffXReader(io.BytesIO(data)))
        err = None
    except Exception as e:
        recs, err = None, e
    if t in S.CONTAINERS:
        return {'violated': err is not None, 'signature': 'inherit:container-rejected', 'detail': repr(err)}
    hdr_end = w['data'].index(b'\n') + 1
    raw = w['data'][hdr_end:]
    try:
        ref = raw.decode(exp_enc) if (exp_enc and t != '...diff') else raw
        ref_ok = ref.endswith('\n' if isinstance(ref, str) else bomless_newline('unix', exp_enc))
    except UnicodeDecodeError:
        ref_ok = False
    if err is not None:
        return {'violated': ref_ok, 'signature': 'inherit:valid-content-rejected',
                'detail': '%s: %s; content %r is valid %s' % (type(err).__name__, err, raw, exp_enc)}
    if not ref_ok:
        return {'violated': True, 'signature': 'inherit:reader-used-other-encoding',
                'detail': 'content %r is not valid %s but was accepted' % (raw, exp_enc)}
    last = recs[-1]
    got = last.get('text', last.get('diff'))
    if got is not None and got != ref:
        return {'violated': True, 'signature': 'inherit:reader-used-other-encoding',
                'detail': 'reader %r, expected %r (%s)' % (got, ref, exp_enc)}
    return {'violated': False}
