"""C03 -- the reader yields exactly what the specification says a well-formed file contains."""
import itertools
import json

import z3

from sx import instrument
from sx.core import (Ctx, PathTimeout, conj, lift, mk_seq, model_bytes, seq_eq, sym_bytes)
from sx.instrument import value_eq
from sx.run import Ob, ok, skip, verdict, viol
from sx.streams import SymStream

from harness.rw import E8, E10

ASSUMPTIONS = [
    'files come from an independent generator written from the specification: valid walks, options in permuted order, '
    'optional options absent, 0-2 blank lines between sections, LF or CRLF header lines; one content section per run '
    'has symbolic raw bytes (optionally followed by the section newline), all other sections are concrete',
    'where the reference reading says the symbolic content is malformed (no final newline, undecodable) the reader must '
    'not accept it; the exception type in that case is C08\'s subject',
    'single-defect catalogue: unsupported / missing version, missing length, content not ending in its newline, '
    'format other than json, invalid JSON, unknown line_endings value',
]


def setup():
    instrument.install('ref')


def render_header(sid, opts, order, crlf):
    items = list(opts)
    items = [items[i] for i in order] if order else items
    s = b'#' + sid.encode() + b':'
    if items:
        s += b' ' + b', '.join(k.encode() + b'=' + str(v).encode() for k, v in items)
    return s + (b'\r\n' if crlf else b'\n')


def perms(n, full):
    ps = list(itertools.permutations(range(n)))
    if full or len(ps) <= 6:
        return ps
    return [ps[0], ps[-1], ps[len(ps) // 2], ps[1], ps[len(ps) // 3]]


class Gen:
    """spec-derived file generator: accumulates bytes and the expected records"""

    def __init__(self, crlf):
        self.crlf = crlf
        self.parts = []
        self.expected = []
        self.line = 0
        self.chain = []

    def blank(self, k):
        for _ in range(k):
            self.parts.append(b'\r\n' if self.crlf else b'\n')

    def container(self, sid, opts, order=None):
        import ref.spec as S
        self.parts.append(render_header(sid, opts, order, self.crlf))
        o = {k: _conv(v) for k, v in opts}
        self.expected.append({'section': sid, 'level': sid.count('.'), 'type': sid.lstrip('.'), 'line': self.line,
                              'options': o})
        self.line += 1
        lvl = S.CONTAINER_LEVEL[sid]
        self.chain = self.chain[:lvl] + [o.get('encoding')]

    def content(self, sid, opts, raw, order=None):
        """raw: exact content bytes (native or shadow); returns the expected record or raises Malformed"""
        import ref.spec as S
        n = len(raw)
        opts = list(opts) + [('length', n)]
        self.parts.append(render_header(sid, opts, order, self.crlf))
        self.parts.append(raw)
        o = {k: _conv(v) for k, v in opts}
        eff = S.effective_encoding(self.chain[:S.CONTAINER_LEVEL[sid] + 1], o.get('encoding'), sid)
        rec = {'section': sid, 'level': sid.count('.'), 'type': sid.lstrip('.'), 'line': self.line, 'options': o}
        val, nlines = S.read_content(raw, eff, o.get('indent') if sid.endswith('preamble') else None,
                                     o.get('line_endings'), sid == '...diff')
        if sid.endswith('preamble'):
            rec['text'] = val
        elif sid.endswith('meta'):
            rec['metadata'] = val
        else:
            rec['diff'] = val
        self.expected.append(rec)
        self.line += 1 + nlines
        return rec

    def filler(self, sid, opts, text):
        """a concrete, well-formed content section: text in the effective encoding"""
        import ref.spec as S
        o = dict(opts)
        eff = S.effective_encoding(self.chain[:S.CONTAINER_LEVEL[sid] + 1], o.get('encoding'), sid)
        raw = text.encode(eff or 'ascii') + S.newline_bytes('unix', eff)
        return self.content(sid, opts, raw)

    def data(self):
        el = ()
        for p in self.parts:
            el += tuple(lift(p).el) if len(p) else ()
        return mk_seq(el, bytes)


def _conv(v):
    if isinstance(v, str):
        try:
            return int(v)
        except ValueError:
            return v
    return v


def _compare(ctx, gen, data, target_idx, wit):
    """run the real reader and compare with the generator's expected records"""
    from pydiffx.reader import DiffXReader
    from pydiffx.errors import DiffXParseError
    try:
        recs = list(DiffXReader(SymStream(data)))
        err = None
    except PathTimeout:
        raise
    except Exception as e:
        recs, err = None, e
    return recs, err


# (crlf headers, blank lines before the section, main options reversed, option-order selector, optional option present)
STYLES = [(False, 0, False, 0, False), (True, 1, True, 1, True), (False, 2, True, 2, False), (True, 0, False, 3, True)]
STYLES_FULL = STYLES + [(False, 1, False, 4, True), (True, 2, False, 2, False), (False, 0, True, 1, True), (True, 1, True, 0, False),
                        (False, 2, False, 3, True), (True, 0, True, 4, False), (False, 1, True, 2, False), (True, 2, True, 3, True)]


def ob_section(ctx, kind, N, encs, full):
    import ref.spec as S
    style = ctx.pick('style', STYLES if not full else STYLES_FULL)
    crlf, blanks, rev_main, order_k, extra = style
    g = Gen(crlf)
    own, anc = ctx.pick('enc', encs)
    wit_cfg = {'kind': kind, 'crlf': crlf, 'own': own, 'ancestor': anc, 'blanks': blanks}
    main_opts = [('version', '1.0')] + ([('encoding', anc)] if anc and kind != 'change-preamble' else [])
    g.container('diffx', main_opts, list(range(len(main_opts)))[::-1] if rev_main else None)
    if kind == 'main-preamble':
        sid = '.preamble'
    else:
        g.blank(1)
        g.container('.change', [('encoding', anc)] if (anc and kind == 'change-preamble') else [])
        sid = '..preamble'
        if kind == 'diff':
            g.container('..file', [])
            g.filler('...meta', [('format', 'json')], '{"path": "f"}')
            sid = '...diff'
    # the symbolic section
    eff = S.effective_encoding(g.chain, own, sid)
    opts = []
    if own:
        opts.append(('encoding', own))
    le = ctx.pick('line_endings', [None, 'unix', 'dos'])
    if le:
        opts.append(('line_endings', le))
    if sid != '...diff':
        indent = ctx.pick('indent', [None, 0, 1, 3] if full else [None, 1, 2])
        if indent is not None:
            opts.append(('indent', indent))
        if extra:
            opts.append(('mimetype', 'text/markdown'))
    else:
        if extra:
            opts.append(('type', 'text'))
    n = ctx.choose(0, N, 'n')
    suffix = ctx.choose(0, 1, 'newline-suffix')
    if n == 0 and not suffix:
        return skip('empty content (C08)')
    body = sym_bytes(ctx, 'c', n)
    raw = mk_seq((tuple(body.el) if n else ()) + (tuple(S.newline_bytes(le or 'unix', eff if sid != '...diff' else own))
                                                   if suffix else ()), bytes)
    g.blank(blanks)
    ps = perms(len(opts) + 1, True)
    order = ps[(order_k * 7) % len(ps)]
    wit = lambda m: dict(wit_cfg, data=model_bytes(m, g.data()), raw=model_bytes(m, raw), sid=sid)
    try:
        exp_rec = g.content(sid, opts, raw, order)
        malformed = None
    except S.Malformed as e:
        malformed = str(e)
    # rest of the file
    if sid == '.preamble':
        g.container('.change', [])
    if sid in ('.preamble', '..preamble'):
        g.blank(1)
        g.container('..file', [])
        g.filler('...meta', [], '{}')
    else:
        g.container('..file', [('x', 'y')])
        g.filler('...meta', [], '{}')
    data = g.data()
    recs, err = _compare(ctx, g, data, None, wit)
    from pydiffx.errors import DiffXParseError
    if malformed is not None:
        if err is None:
            return viol('accepts-malformed-content(%s)' % malformed, wit(ctx.model()))
        return ok(note='both reject')
    if err is not None:
        return viol('rejects-wellformed:%s' % type(err).__name__, dict(wit(ctx.model()), error=str(err)[:200]))
    if len(recs) != len(g.expected):
        return viol('record-count', wit(ctx.model()))
    props = []
    for r, e in zip(recs, g.expected):
        for k in ('section', 'level', 'type', 'line'):
            props.append((k, value_eq(r.get(k), e[k])))
        props.append(('options', value_eq(dict(r['options'].items()), e['options'])))
        for k in ('text', 'diff'):
            if k in e:
                props.append((k, seq_eq(r.get(k), e[k])))
        if 'metadata' in e:
            props.append(('metadata', r.get('metadata') == json.loads(e['metadata'])))
    return verdict(ctx, props, witness=wit, sample=lambda m: dict(wit(m)))


JSONS = [b'{}', b'{"a":1}', b'{\n  "a": [1, 2],\n  "b": {"c": null}\n}', '{"k": "é€"}'.encode('utf-8')]


def ob_meta(ctx, encs):
    """metadata sections: compact / pretty JSON under every encoding, format option present or absent; the
    encoding may be declared on the main section, on the change or on a file, and the section may sit in the
    second file of a change or in a second change (nearest declaring ancestor, siblings never leak)"""
    import ref.spec as S
    crlf = bool(ctx.choose(0, 1, 'crlf-headers'))
    g = Gen(crlf)
    own, anc = ctx.pick('enc', encs)
    sid, where = ctx.pick('where', [('.meta', 'main'), ('..meta', 'change'), ('...meta', 'file1'), ('...meta', 'file2'),
                                    ('..meta', 'change2'), ('...meta', 'change2.file1')])
    decl = ctx.pick('declared-at', ['main', 'change', 'file'])
    js = ctx.pick('json', JSONS).decode('utf-8')
    le = ctx.pick('line_endings', [None, 'dos'])
    fmt = ctx.choose(0, 1, 'format')
    other = 'latin-1' if anc != 'latin-1' else 'utf-8'
    # the outer encoding differs from the declared one, so a wrong inheritance is visible
    main_enc = anc if decl == 'main' else (other if anc else None)
    g.container('diffx', [('version', '1.0')] + ([('encoding', main_enc)] if main_enc else []))

    def filler_file(enc=None):
        g.container('..file', [('encoding', enc)] if enc else [])
        import ref.spec as S2
        eff0 = S2.effective_encoding(g.chain, None, '...meta')
        g.filler('...meta', [], '{"p": "é"}' if eff0 not in (None, 'ascii') else '{"p": 1}')
    if sid != '.meta':
        g.container('.change', [('encoding', anc)] if (anc and decl == 'change') else [])
        if where.startswith('change2'):
            # a first change with its own file (possibly declaring an encoding), then the change under test
            filler_file('utf-16-be' if decl == 'file' else None)
            g.container('.change', [('encoding', anc)] if (anc and decl in ('change', 'file')) else [])
        if where == 'file2':
            filler_file('utf-16-be' if decl == 'file' else None)
        if sid == '...meta':
            g.container('..file', [('encoding', anc)] if (anc and decl == 'file') else [])
    eff = S.effective_encoding(g.chain, own, sid)
    nl = '\r\n' if le == 'dos' else '\n'
    try:
        raw = (js.replace('\n', nl)).encode(eff or 'ascii') + S.newline_bytes(le or 'unix', eff)
    except UnicodeEncodeError:
        return skip('json text not encodable')
    opts = ([('encoding', own)] if own else []) + ([('format', 'json')] if fmt else []) + ([('line_endings', le)] if le else [])
    g.blank(ctx.choose(0, 1, 'blank'))
    wit = lambda m: {'kind': 'meta', 'data': g.data(), 'sid': sid}
    try:
        g.content(sid, opts, raw, ctx.pick('order', perms(len(opts) + 1, False)))
    except S.Malformed as e:
        return skip('generator produced malformed content: %s' % e)
    if sid == '.meta':
        g.container('.change', [])
    if sid != '...meta':
        g.container('..file', [])
        g.filler('...meta', [], '{}')
    data = g.data()
    recs, err = _compare(ctx, g, data, None, wit)
    if err is not None:
        return viol('rejects-wellformed:%s' % type(err).__name__, dict(wit(None), error=str(err)[:200]))
    ok_ = len(recs) == len(g.expected)
    for r, e in zip(recs, g.expected):
        ok_ = ok_ and all(r.get(k) == e[k] for k in ('section', 'level', 'type', 'line'))
        ok_ = ok_ and dict(r['options'].items()) == e['options']
        if 'metadata' in e:
            ok_ = ok_ and r.get('metadata') == json.loads(e['metadata'])
    return verdict(ctx, [('records', bool(ok_))], witness=wit, sample=lambda m: {'sid': sid, 'where': where, 'enc': eff, 'json': js})


def ob_padded(ctx, lengths):
    """one header of a five-section file is padded (by an option the specification allows but does not define) so that
    the header line without its newline has a chosen length around multiples of the reader's read-ahead block; LF and
    CRLF header lines; a symbolic diff follows"""
    import ref.spec as S
    crlf = bool(ctx.choose(0, 1, 'crlf-headers'))
    g = Gen(crlf)
    which = ctx.pick('padded-header', ['diffx', '.change', '..file', '...meta', '...diff'])
    L = ctx.pick('header-len', lengths)
    body = sym_bytes(ctx, 'c', 2)
    raw = mk_seq(tuple(body.el) + (10,), bytes)
    base = {'diffx': [('version', '1.0'), ('encoding', 'utf-8')], '.change': [], '..file': [('encoding', 'latin-1')],
            '...meta': [('format', 'json'), ('length', 9)], '...diff': [('length', 3)]}

    def opts_for(sid):
        o = [x for x in base[sid] if x[0] != 'length']
        if sid != which:
            return o
        cur = len(render_header(sid, base[sid], None, False)) - 1
        extra = len(', x-pad=') if base[sid] else len(' x-pad=')
        k = L - cur - extra
        if k < 1:
            return None
        return o + [('x-pad', 'p' * k)]
    allo = {sid: opts_for(sid) for sid in base}
    if any(v is None for v in allo.values()):
        return skip('header cannot be padded to %d' % L)
    wit = lambda m: {'kind': 'padded', 'data': model_bytes(m, g.data()), 'raw': model_bytes(m, raw), 'sid': which}
    g.container('diffx', allo['diffx'])
    g.container('.change', allo['.change'])
    g.container('..file', allo['..file'])
    try:
        g.content('...meta', allo['...meta'], b'{"a": 1}\n')
        g.content('...diff', allo['...diff'], raw)
        malformed = None
    except S.Malformed as e:
        malformed = str(e)
    data = g.data()
    recs, err = _compare(ctx, g, data, None, wit)
    if malformed is not None:
        if err is None:
            return viol('accepts-malformed-content(%s)' % malformed, wit(ctx.model()))
        return ok(note='both reject')
    if err is not None:
        return viol('rejects-wellformed:%s' % type(err).__name__, dict(wit(ctx.model()), error=str(err)[:200]))
    if len(recs) != len(g.expected):
        return viol('record-count', wit(ctx.model()))
    props = []
    for r, e in zip(recs, g.expected):
        for k in ('section', 'level', 'type', 'line'):
            props.append((k, value_eq(r.get(k), e[k])))
        props.append(('options', value_eq(dict(r['options'].items()), e['options'])))
        if 'diff' in e:
            props.append(('diff', seq_eq(r.get('diff'), e['diff'])))
        if 'metadata' in e:
            props.append(('metadata', r.get('metadata') == json.loads(e['metadata'])))
    return verdict(ctx, props, witness=wit, sample=lambda m: dict(wit(m)))


def ob_meta_bytes(ctx, W):
    """a metadata section whose JSON text contains a window of symbolic raw bytes inside a string literal: the reader
    must accept exactly when the bytes decode under the effective encoding to valid JSON (REF_READ + the JSON grammar:
    CPython's decoder under instrumentation on both sides), with the same value; otherwise DiffXParseError"""
    import ref.spec as S
    from sx import instrument as _ins
    from pydiffx.errors import DiffXParseError
    crlf = bool(ctx.choose(0, 1, 'crlf-headers'))
    g = Gen(crlf)
    own, anc = ctx.pick('enc', [(None, None), (None, 'utf-8'), ('latin-1', 'utf-8'), (None, 'utf-16'), ('utf-16-be', None),
                                ('utf-8', 'utf-16'), (None, 'ascii'), ('utf-32-le', 'utf-8')])
    sid = ctx.pick('sid', ['.meta', '...meta'])
    g.container('diffx', [('version', '1.0')] + ([('encoding', anc)] if anc else []))
    if sid == '...meta':
        g.container('.change', [])
        g.container('..file', [])
    eff = S.effective_encoding(g.chain, own, sid)
    unit = {'utf-16': 2, 'utf-16-be': 2, 'utf-32-le': 4}.get(eff, 1)
    w = ctx.choose(1, W, 'w')
    win = sym_bytes(ctx, 'j', w * unit)
    place = ctx.pick('place', ['string', 'key', 'bare'])
    pre, post = {'string': ('{"k": "', '"}'), 'key': ('{"', '": 1}'), 'bare': ('[', ']')}[place]
    bom_less = {'utf-16': 'utf-16-le', 'utf-32': 'utf-32-le'}.get(eff, eff) or 'ascii'
    head = pre.encode(eff or 'ascii')
    raw = mk_seq(tuple(head) + tuple(win.el) + tuple(post.encode(bom_less)) + tuple(S.newline_bytes('unix', eff)), bytes)
    opts = ([('encoding', own)] if own else []) + [('format', 'json')]
    wit = lambda m: {'kind': 'meta-bytes', 'data': model_bytes(m, g.data()), 'sid': sid, 'raw': model_bytes(m, raw)}
    expected_md = None
    malformed = None
    try:
        rec = g.content(sid, opts, raw)
        try:
            expected_md = _ins.h_call(json.loads, rec['metadata'])
        except ValueError as e:
            malformed = 'not JSON: %s' % type(e).__name__
    except S.Malformed as e:
        malformed = str(e)
    if sid == '.meta':
        g.container('.change', [])
        g.container('..file', [])
        g.filler('...meta', [], '{}')
    data = g.data()
    recs, err = _compare(ctx, g, data, None, wit)
    if malformed is not None:
        if err is None:
            return viol('accepts-malformed-metadata(%s)' % malformed.split(':')[0], wit(ctx.model()))
        return ok(note='both reject')          # (the exception type is C08's subject)
    if err is not None:
        return viol('rejects-wellformed:%s' % type(err).__name__, dict(wit(ctx.model()), error=str(err)[:200]))
    if len(recs) != len(g.expected):
        return viol('record-count', wit(ctx.model()))
    r = [x for x in recs if x['section'] == sid][0]
    return verdict(ctx, [('metadata', value_eq(r.get('metadata'), expected_md)),
                         ('line', value_eq(r.get('line'), rec['line']))], witness=wit, sample=lambda m: wit(m))


BASE = [
    ('diffx', [('version', '1.0'), ('encoding', 'utf-8')], None),
    ('.preamble', [('indent', 2), ('line_endings', 'unix')], b'  Top\n  text\n'),
    ('.meta', [('format', 'json')], b'{"a": 1}\n'),
    ('.change', [], None),
    ('..preamble', [], b'hello\n'),
    ('..meta', [], b'{\n "k": 2\n}\n'),
    ('..file', [], None),
    ('...meta', [('format', 'json')], b'{"path": "x"}\n'),
    ('...diff', [('line_endings', 'unix')], b'--- a\n+++ b\n'),
]


def ob_defects(ctx):
    """single-defect mutations of a well-formed file: rejected with a parse error designating the section"""
    from pydiffx.reader import DiffXReader
    from pydiffx.errors import DiffXParseError
    crlf = bool(ctx.choose(0, 1, 'crlf-headers'))
    defects = []
    for i, (sid, opts, raw) in enumerate(BASE):
        if sid == 'diffx':
            defects += [(i, 'unsupported-version'), (i, 'missing-version')]
        if raw is not None:
            defects += [(i, 'missing-length'), (i, 'no-trailing-newline'), (i, 'bad-line-endings')]
        if sid.endswith('meta'):
            defects += [(i, 'format-not-json'), (i, 'invalid-json')]
    di, kind = ctx.pick('defect', defects)
    g_parts = []
    line = 0
    span = None
    for i, (sid, opts, raw) in enumerate(BASE):
        opts = list(opts)
        if raw is not None:
            opts.append(('length', len(raw)))
        if i == di:
            if kind == 'unsupported-version':
                opts = [(k, '2.0' if k == 'version' else v) for k, v in opts]
            elif kind == 'missing-version':
                opts = [(k, v) for k, v in opts if k != 'version']
            elif kind == 'missing-length':
                opts = [(k, v) for k, v in opts if k != 'length']
            elif kind == 'no-trailing-newline':
                raw = raw[:-1] + b'x'
            elif kind == 'bad-line-endings':
                opts = [(k, v) for k, v in opts if k != 'line_endings'] + [('line_endings', 'mac')]
            elif kind == 'format-not-json':
                opts = [(k, v) for k, v in opts if k != 'format'] + [('format', 'yaml')]
            elif kind == 'invalid-json':
                raw = b'{"a": }\n'
                opts = [(k, v) for k, v in opts if k != 'length'] + [('length', len(raw))]
        g_parts.append(render_header(sid, opts, None, crlf))
        nl = (raw or b'').count(b'\n') + (0 if (raw or b'\n').endswith(b'\n') else 1)
        if i == di:
            span = (line, line + (nl if raw else 0))
        line += 1
        if raw is not None:
            g_parts.append(raw)
            line += nl
    data = b''.join(g_parts)
    wit = lambda m: {'kind': 'defect', 'defect': kind, 'section': BASE[di][0], 'data': data, 'span': list(span)}
    try:
        recs = list(DiffXReader(SymStream(data)))
    except DiffXParseError as e:
        return verdict(ctx, [('linenum-designates-section', isinstance(e.linenum, int) and span[0] <= e.linenum <= span[1])],
                       witness=lambda m: dict(wit(m), linenum=e.linenum), sample=lambda m: dict(wit(m), linenum=e.linenum))
    except Exception as e:
        return viol('raised:%s' % type(e).__name__, wit(None))
    return viol('defect-accepted', wit(None))


def _enc_cfg(cat):
    return [(e, None) for e in cat] + [(None, e) for e in cat] + [(None, None)]


def obligations(tier):
    quick = tier == 'quick'
    cat = ['utf-8', 'utf-16', 'latin-1', 'utf-32-be'] if quick else E8
    N = 3 if quick else 4
    obs = []
    for kind in ('main-preamble', 'change-preamble', 'diff'):
        obs.append(Ob('section[%s]' % kind, ob_section, dict(kind=kind, N=N if kind != 'main-preamble' else N - 1,
                                                              encs=_enc_cfg(cat), full=not quick),
                      must_reach=['DiffXReader._read_content', 'DiffXReader._read_header'], path_timeout=30,
                      desc='real reader vs REF_READ on a generated foreign-style file whose %s section has symbolic raw '
                           'content' % kind, bounds={'content_len': [0, N], 'encodings': cat}))
    obs.append(Ob('meta', ob_meta, dict(encs=_enc_cfg(E8)), must_reach=['DiffXReader.iter_sections'],
                  desc='metadata sections: JSON catalogue (compact / pretty) x encodings x levels x header styles',
                  bounds={'catalogue': len(JSONS)}))
    from harness.C17 import block_lengths
    quick = tier == 'quick'
    PL = block_lengths([94, 95, 96, 97, 191, 192] if quick else
                       [93, 94, 95, 96, 97, 98, 127, 128, 129, 190, 191, 192, 193, 255, 256, 287, 288, 383, 384, 1055, 1056], quick)
    obs.append(Ob('padded-headers', ob_padded, dict(lengths=PL), must_reach=['DiffXReader.iter_sections'], path_timeout=30,
                  desc='each of the five headers of a generated file padded (unknown option) to %s bytes, LF and CRLF header '
                       'lines, followed by a symbolic diff: reader == REF_READ' % PL, bounds={'header_len': PL}))
    W = 1 if tier == 'quick' else 2
    obs.append(Ob('meta[symbolic-bytes]', ob_meta_bytes, dict(W=W), must_reach=['DiffXReader.iter_sections'], path_timeout=30,
                  desc='metadata whose JSON text has a window of 1..%d symbolic code units (raw bytes) inside a string, a key '
                       'or an array, under 8 own/inherited encodings: accepted iff the bytes decode to valid JSON, same value' % W,
                  bounds={'window_units': [1, W], 'encodings': 8}))
    obs.append(Ob('defects', ob_defects, {}, must_reach=['DiffXReader.iter_sections'],
                  desc='every single-defect mutation from the catalogue is rejected with a DiffXParseError whose line '
                       'number lies in the offending section', bounds={'defect_kinds': 7}))
    return obs


def validate(tier):
    """generator + REF_READ reproduce the real reader natively on the specification's example files structure"""
    import io
    from pydiffx.reader import DiffXReader
    n = 0
    for crlf in (False, True):
        g = Gen(crlf)
        for sid, opts, raw in BASE:
            if raw is None:
                g.container(sid, opts)
            else:
                g.content(sid, opts, raw)
            g.blank(1)
        recs = list(DiffXReader(io.BytesIO(g.data())))
        assert len(recs) == len(g.expected)
        for r, e in zip(recs, g.expected):
            for k in ('section', 'level', 'type', 'line', 'options', 'text', 'diff'):
                if k in e:
                    assert r[k] == e[k], (k, r, e)
            if 'metadata' in e:
                assert r['metadata'] == json.loads(e['metadata'])
        n += 1
    return n


def replay(ob, label, w):
    import io
    import re
    import ref.spec as S
    from pydiffx.reader import DiffXReader
    from pydiffx.errors import DiffXParseError
    data = w['data']
    if w['kind'] == 'defect':
        try:
            list(DiffXReader(io.BytesIO(data)))
        except DiffXParseError as e:
            lo, hi = w['span']
            bad = not (lo <= e.linenum <= hi)
            return {'violated': bad, 'signature': 'spec-read:error-line-outside-section',
                    'detail': '%s in %s: linenum %r not in [%d,%d]' % (w['defect'], w['section'], e.linenum, lo, hi)}
        except Exception as e:
            return {'violated': True, 'signature': 'spec-read:defect-raised:%s' % type(e).__name__,
                    'detail': '%s in %s' % (w['defect'], w['section'])}
        return {'violated': True, 'signature': 'spec-read:defect-accepted', 'detail': '%s in %s' % (w['defect'], w['section'])}
    # independent re-reading of the whole file with the reference
    try:
        exp = _ref_read_file(data, S)
        ref_err = None
    except S.Malformed as e:
        exp, ref_err = None, e
    try:
        recs = list(DiffXReader(io.BytesIO(data)))
        err = None
    except Exception as e:
        recs, err = None, e
    if ref_err is not None:
        return {'violated': err is None, 'signature': 'spec-read:accepts-malformed', 'detail': '%s: %r' % (ref_err, data)}
    if err is not None:
        return {'violated': True, 'signature': 'spec-read:rejects-wellformed:%s' % type(err).__name__,
                'detail': '%s on %r' % (err, data)}
    got = [{k: (dict(r[k]) if k == 'options' else r[k]) for k in r} for r in recs]
    if got != exp:
        return {'violated': True, 'signature': 'spec-read:records-differ', 'detail': 'reader %r\nspec   %r\nfile %r' % (got, exp, data)}
    return {'violated': False}


def _ref_read_file(data, S):
    """whole-file reference reader (native): headers per the grammar, content per REF_READ"""
    import re
    pos = 0
    out = []
    line = 0
    chain = []
    hdr_nl = None
    while pos < len(data):
        j = data.index(b'\n', pos)
        raw_line = data[pos:j + 1]
        pos = j + 1
        if not raw_line.strip():
            continue
        if hdr_nl is None:
            hdr_nl = b'\r\n' if raw_line.endswith(b'\r\n') else b'\n'
        text = raw_line[:-len(hdr_nl)]
        m = re.fullmatch(rb'#((\.{0,3})([a-z]+)):(?: (.*))?', text)
        sid = m.group(1).decode()
        opts = {}
        if m.group(4):
            for pair in m.group(4).split(b', '):
                k, v = pair.split(b'=', 1)
                opts[k.decode()] = _conv(v.decode())
        rec = {'section': sid, 'level': len(m.group(2)), 'type': m.group(3).decode(), 'line': line, 'options': opts}
        line += 1
        if sid in S.CONTAINERS:
            lvl = S.CONTAINER_LEVEL[sid]
            chain = chain[:lvl] + [opts.get('encoding')]
        else:
            n = opts['length']
            raw = data[pos:pos + n]
            pos += n
            eff = S.effective_encoding(chain[:S.CONTAINER_LEVEL[sid] + 1], opts.get('encoding'), sid)
            val, nl = S.read_content(raw, eff, opts.get('indent') if sid.endswith('preamble') else None,
                                     opts.get('line_endings'), sid == '...diff')
            line += nl
            if sid.endswith('preamble'):
                rec['text'] = val
            elif sid.endswith('meta'):
                try:
                    rec['metadata'] = json.loads(val)
                except ValueError as e:
                    raise S.Malformed('metadata is not JSON: %s' % type(e).__name__)
            else:
                rec['diff'] = val
        out.append(rec)
    return out
