"""C14 -- unified-diff hunk parser: exact geometry or a positioned error."""
import z3

from sx import instrument, validate as V
from sx.core import (Ctx, SInt, SSeq, conj, lift, mk_seq, model_bytes, model_int, rng, sym_bytes, sym_int, zint,
                     concretize_value)
from sx.instrument import value_eq
from sx.run import Ob, ok, skip, verdict, viol

ASSUMPTIONS = [
    'whole-function obligation: at most L lines (see bounds), each drawn from the stated templates (hunk header with '
    'symbolic digits, free bytes up to 3, the no-newline marker with optional surrounding byte, "@@"+2 free bytes)',
    'step obligation: arbitrary pre-state satisfying Inv_h (DESIGN Appendix A) -- covers any number of lines by '
    'induction, provided the loop header is still "for line_num, line in enumerate(lines, start=1)" (checked)',
    'inputs on which a side of a hunk receives more lines than its header announces are outside the property '
    '(only the exception type is checked there)',
]

MARKER = b'\\ No newline at end of file'
STALE_KW = [{}]


def setup():
    instrument.install('ref')


def _mods():
    import pydiffx.utils.unified_diffs as UD
    from pydiffx.errors import MalformedHunkError
    import ref.hunks as RH
    return UD, MalformedHunkError, RH


def _digits(ctx, name, n, first_nonzero=False):
    d = sym_bytes(ctx, name, n)
    for e in d.el:
        ctx.assume(z3.And(z3.UGE(e, 48), z3.ULE(e, 57)))
    return d


def sym_line(ctx, tag, rich):
    """one symbolic line from the templates"""
    kind = ctx.choose(0, 3, tag + '.kind')
    if kind == 0:
        l = b'@@ -' + _digits(ctx, tag + 'os', 1 + (ctx.choose(0, 1, tag + '.osl') if rich else 0))
        if ctx.choose(0, 1, tag + '.oc'):
            l = l + b',' + _digits(ctx, tag + 'on', 1)
        l = l + b' +' + _digits(ctx, tag + 'ms', 1)
        if ctx.choose(0, 1, tag + '.mc'):
            l = l + b',' + _digits(ctx, tag + 'mn', 1)
        l = l + b' @@'
        tail = ctx.choose(0, 3 if rich else 1, tag + '.tail')
        if tail == 1:
            l = l + b' ' + sym_bytes(ctx, tag + 'cx', 1) + b'\n'
        elif tail == 2:
            l = l + sym_bytes(ctx, tag + 'tl', 1)
        elif tail == 3:
            l = l + b' '
        return l
    if kind == 1:
        n = ctx.choose(0, 3 if rich else 2, tag + '.len')
        return sym_bytes(ctx, tag + 'f', n)
    if kind == 2:
        a = ctx.choose(0, 1, tag + '.pre')
        b = ctx.choose(0, 1, tag + '.post')
        return (sym_bytes(ctx, tag + 'w', 1) if a else b'') + MARKER + (sym_bytes(ctx, tag + 'x', 1) if b else b'')
    return b'@@' + sym_bytes(ctx, tag + 'g', 2)


class LazyLines(list):
    """a list of L lines whose elements are created (by harness choices) when
    first touched, so that lines never looked at do not multiply paths"""

    def __init__(self, ctx, L, rich):
        list.__init__(self, [None] * L)
        self._ctx, self._rich = ctx, rich

    def _get(self, i):
        v = list.__getitem__(self, i)
        if v is None:
            v = sym_line(self._ctx, 'l%d' % i, self._rich)
            list.__setitem__(self, i, v)
        return v

    def __getitem__(self, i):
        if isinstance(i, slice):
            return [self._get(j) for j in range(*i.indices(len(self)))]
        if i < 0:
            i += len(self)
        if not 0 <= i < len(self):
            raise IndexError('list index out of range')
        return self._get(i)

    def __iter__(self):
        for i in range(len(self)):
            yield self._get(i)

    def materialized(self, model):
        out = []
        for i in range(len(self)):
            v = list.__getitem__(self, i)
            out.append(b'?' if v is None else model_bytes(model, v))
        return out


def _outcome(fn, exc_types):
    try:
        return ('ok', fn())
    except exc_types as e:
        return ('mal', e)
    except Exception as e:
        return ('exc', e)


def ob_whole(ctx, Lmax, rich):
    UD, MalformedHunkError, RH = _mods()
    L = ctx.choose(0, Lmax, 'L')
    ig = bool(ctx.choose(0, 1, 'ignore_garbage'))
    lines = LazyLines(ctx, L, rich)
    wit = lambda m: {'lines': lines.materialized(m), 'ignore_garbage': ig}
    a = _outcome(lambda: UD.get_unified_diff_hunks(lines, ignore_garbage=ig), MalformedHunkError)
    if a[0] == 'exc':
        return viol('raised:%s' % type(a[1]).__name__, wit(ctx.model()))
    try:
        b = _outcome(lambda: RH.hunks(lines, ig), RH.Malformed)
    except RH.Unspecified:
        return verdict(ctx, [('exception-type', True)], witness=wit,
                       sample=lambda m: dict(wit(m), ref='unspecified (side overflow)'))
    if b[0] == 'exc':
        if isinstance(b[1], RH.Unspecified):
            return verdict(ctx, [('exception-type', True)], witness=wit,
                           sample=lambda m: dict(wit(m), ref='unspecified (side overflow)'))
        raise b[1]
    if a[0] != b[0]:
        return viol('outcome:%s-vs-ref-%s' % (a[0], b[0]), wit(ctx.model()))
    if a[0] == 'ok':
        props = [('result', value_eq(a[1], b[1]))]
    else:
        props = [('error-line', value_eq(a[1].line, b[1].line)), ('error-line_num', value_eq(a[1].line_num, b[1].line_num))]
    return verdict(ctx, props, witness=wit, sample=lambda m: dict(wit(m), outcome=a[0]))


# ------------------------------------------------------------------ inductive step

def _side(ctx, p, has):
    d = dict(n=sym_int(ctx, p + 'n', 0), s=sym_int(ctx, p + 's', -1), i=sym_int(ctx, p + 'i', 0),
             c=sym_int(ctx, p + 'c', 0), f=None, l=None)
    ctx.assume(d['i'].e <= d['n'].e)
    if has:
        d['f'] = sym_int(ctx, p + 'f', 0)
        d['l'] = sym_int(ctx, p + 'l', 0)
        ctx.assume(z3.And(d['f'].e <= d['l'].e, d['l'].e < d['i'].e, d['c'].e >= 1,
                          d['c'].e <= d['l'].e - d['f'].e + 1,
                          z3.Implies(d['f'].e < d['l'].e, d['c'].e >= 2)))
    else:
        ctx.assume(d['c'].e == 0)
    return d


def _impl_side(d):
    return {'first_changed_line': None if d['f'] is None else d['s'] + d['f'],
            'last_changed_line': None if d['l'] is None else d['s'] + d['l'],
            'num_lines': d['n'], 'num_lines_changed': d['c'], 'start_line': d['s']}


def _ref_side(RH, d):
    s = RH.Side(d['s'], d['n'])
    s.i, s.changed, s.first, s.last = d['i'], d['c'], d['f'], d['l']
    return s


def ob_step(ctx, rich, STEP):
    UD, MalformedHunkError, RH = _mods()
    step = STEP
    in_hunk = ctx.choose(0, 1, 'in_hunk')
    ig = bool(ctx.choose(0, 1, 'ignore_garbage'))
    ln = sym_int(ctx, 'line_num', 1)
    ti, td = sym_int(ctx, 'ti', 0), sym_int(ctx, 'td', 0)
    prev_hunks = [{'context': None, 'lines_of_context_pre': 0}]      # opaque earlier entry
    st = dict(total_inserts=ti, total_deletes=td, hunks=list(prev_hunks), hunk_orig_i=0, hunk_modified_i=0,
              cur_hunk_entry=None, cur_hunk_orig=None, cur_hunk_modified=None, ignore_garbage=ig, line_num=ln)
    rs = RH.State(ig)
    rs.hunks = list(prev_hunks)
    rs.inserts, rs.deletes = ti, td
    rs.processed = ln - 1
    if not in_hunk:
        # outside a hunk the per-hunk variables are dead: whatever an earlier iteration left in them (Inv_h says
        # nothing about them, so the step must not depend on them -- and need not reset them)
        from sx.extract import STALE
        st['hunk_orig_i'] = sym_int(ctx, 'dead_oi')
        st['hunk_modified_i'] = sym_int(ctx, 'dead_mi')
        st['cur_hunk_orig'] = STALE
        st['cur_hunk_modified'] = STALE
    if in_hunk:
        o = _side(ctx, 'o', ctx.choose(0, 1, 'o.has'))
        m_ = _side(ctx, 'm', ctx.choose(0, 1, 'm.has'))
        ctx.assume(z3.Not(z3.And(o['i'].e >= o['n'].e, m_['i'].e >= m_['n'].e)))
        ctx.assume(z3.And(td.e >= o['c'].e, ti.e >= m_['c'].e))
        # both sides share their context lines
        ctx.assume(o['i'].e - o['c'].e == m_['i'].e - m_['c'].e)
        cx = [None, b'ctx'][ctx.choose(0, 1, 'ctx')]
        st['cur_hunk_orig'] = _impl_side(o)
        st['cur_hunk_modified'] = _impl_side(m_)
        st['cur_hunk_entry'] = {'context': cx, 'orig': st['cur_hunk_orig'], 'modified': st['cur_hunk_modified']}
        st['hunk_orig_i'], st['hunk_modified_i'] = o['i'], m_['i']
        rs.orig, rs.mod, rs.context = _ref_side(RH, o), _ref_side(RH, m_), cx
    line = sym_line(ctx, 'ln', rich)
    st['line'] = line
    import copy
    pre = {k: (copy.copy(v) if isinstance(v, dict) else v) for k, v in st.items() if k != 'line'}

    def wit(m):
        def cv(x):
            return concretize_value(m, x)
        return {'in_hunk': in_hunk, 'ignore_garbage': ig, 'line': model_bytes(m, line), 'line_num': cv(ln),
                'state': {k: cv(v) for k, v in pre.items()}}
    ys = []
    from sx.extract import StaleUse
    try:
        a = _outcome(lambda: step(_sx_yield_=ys, **dict(STALE_KW[0], **st)), MalformedHunkError)
    except StaleUse:
        return viol('stale-local-read', wit(ctx.model()))
    if a[0] == 'exc':
        return viol('raised:%s' % type(a[1]).__name__, wit(ctx.model()))
    try:
        b = _outcome(lambda: RH.step(rs, line, ln), RH.Malformed)
    except RH.Unspecified:
        return verdict(ctx, [('exception-type', True)], witness=wit)
    if b[0] == 'exc':
        if isinstance(b[1], RH.Unspecified):
            return verdict(ctx, [('exception-type', True)], witness=wit)
        raise b[1]
    if a[0] != b[0]:
        return viol('outcome:%s-vs-ref-%s' % (a[0], b[0]), wit(ctx.model()))
    if a[0] == 'mal':
        return verdict(ctx, [('error-line', value_eq(a[1].line, b[1].line)),
                             ('error-line_num', value_eq(a[1].line_num, b[1].line_num))], witness=wit,
                       sample=lambda m: {'line': model_bytes(m, line), 'outcome': 'malformed'})
    kind, loc = a[1]
    cont = b[1]
    if (kind == 'break') != (not cont):
        return viol('stop-vs-continue', wit(ctx.model()))
    props = [('line_num', value_eq(loc['line_num'], rs.processed)),
             ('total_inserts', value_eq(loc['total_inserts'], rs.inserts)),
             ('total_deletes', value_eq(loc['total_deletes'], rs.deletes)),
             ('hunks', value_eq(loc['hunks'], rs.hunks))]
    in_after = loc['cur_hunk_entry'] is not None
    if in_after != rs.in_hunk():
        return viol('in-hunk-after', wit(ctx.model()))
    if in_after:
        for nm, side, idx in (('orig', rs.orig, 'hunk_orig_i'), ('modified', rs.mod, 'hunk_modified_i')):
            d = loc['cur_hunk_' + nm]
            props.append(('entry-aliasing', loc['cur_hunk_entry'].get(nm) is d))
            props.append((nm + '.state', value_eq(d, side.summary())))
            props.append((nm + '.i', value_eq(loc[idx], side.i)))
        props.append(('context', value_eq(loc['cur_hunk_entry'].get('context'), rs.context)))
    return verdict(ctx, props, witness=wit,
                   sample=lambda m: {'line': model_bytes(m, line), 'in_hunk': in_hunk, 'outcome': kind})


def ob_epilogue(ctx, POST):
    UD, MalformedHunkError, RH = _mods()
    in_hunk = ctx.choose(0, 1, 'in_hunk')
    ln = sym_int(ctx, 'line_num', 0)
    ti, td = sym_int(ctx, 'ti', 0), sym_int(ctx, 'td', 0)
    last = sym_bytes(ctx, 'last', 2)
    hunks = [{'context': None}]
    lines = [b'x', last]
    st = dict(total_inserts=ti, total_deletes=td, hunks=hunks, line_num=ln, line=last, lines=lines,
              cur_hunk_entry={'context': None} if in_hunk else None)
    rs = RH.State(False)
    rs.hunks, rs.inserts, rs.deletes, rs.processed = hunks, ti, td, ln
    if in_hunk:
        rs.orig = rs.mod = RH.Side(0, 1)
        ctx.assume(ln.e == len(lines))       # the loop ran to the end (no break inside a hunk)
    wit = lambda m: {'in_hunk': in_hunk, 'line_num': model_int(m, ln)}
    a = _outcome(lambda: POST(**st), MalformedHunkError)
    b = _outcome(lambda: RH.finish(rs, lines), RH.Malformed)
    if a[0] == 'exc':
        return viol('raised:%s' % type(a[1]).__name__, wit(ctx.model()))
    if a[0] != b[0]:
        return viol('outcome:%s-vs-ref-%s' % (a[0], b[0]), wit(ctx.model()))
    if a[0] == 'ok':
        return verdict(ctx, [('result', value_eq(a[1], b[1]))], witness=wit)
    return verdict(ctx, [('error-line', value_eq(a[1].line, b[1].line)),
                         ('error-line_num', value_eq(a[1].line_num, b[1].line_num))], witness=wit)


# hunk bodies with known geometry (markers: ' ' context, '-' delete, '+' insert, 'M' no-newline marker)
BODIES = [
    [' ', '-', '+', ' '], ['-', '+'], [' ', ' ', '+'], ['+', ' ', '-', ' ', ' '], ['-', 'M', '+', 'M'], [' ', ' ', ' '],
    ['-', ' ', ' ', '+'], [' ', '-', '-', ' ', '+', ' ', ' '],
    # "\\ No newline at end of file" markers in every position relative to the context and the changed lines
    [' ', 'M', '-', '+'], ['-', '+', 'M', ' '], [' ', 'M', ' ', '-', 'M', ' ', '+', ' '], ['M', ' ', '+'], [' ', '+', ' ', 'M'],
]


def ob_shapes(ctx, H, bodies, damages=None):
    """sequences of 1..H well-formed hunks from a catalogue of bodies with different leading/trailing context,
    symbolic start lines and payloads, optional garbage between hunks: real function vs REF_HUNK"""
    UD, MalformedHunkError, RH = _mods()
    nh = ctx.choose(1, H, 'hunks')
    ig = bool(ctx.choose(0, 1, 'ignore_garbage'))
    lines = []
    kinds = []
    damage = ctx.pick('damage', list(damages or ['none', 'none', 'drop-last-line', 'header-inside', 'flip-kind', 'opposed-counts']))
    for h in range(nh):
        body = ctx.pick('body%d' % h, bodies)
        o = sum(1 for m in body if m in ' -')
        n = sum(1 for m in body if m in ' +')
        if damage == 'opposed-counts' and h == ctx.choose(0, nh - 1, 'damaged-hunk') and min(o, n) >= 1:
            # the two counts of one header are wrong in opposite directions (their sum is still the body's)
            o, n = (o + 1, n - 1) if ctx.choose(0, 1, 'direction') else (o - 1, n + 1)
        if ig and ctx.choose(0, 1, 'garbage%d' % h):
            g = sym_bytes(ctx, 'g%d' % h, 2)
            ctx.assume(g.el[0] != 64)
            lines.append(g)
            kinds.append('g')
        start = _digits(ctx, 's%d' % h, ctx.choose(1, 2, 'startlen%d' % h))
        hdr = b'@@ -' + start + (b',%d' % o if (o != 1 or ctx.choose(0, 1, 'oc%d' % h)) else b'') + b' +' + start + \
            (b',%d' % n if (n != 1 or ctx.choose(0, 1, 'nc%d' % h)) else b'') + b' @@'
        lines.append(hdr)
        kinds.append('@')
        for k, m in enumerate(body):
            kinds.append(m)
            if m == 'M':
                lines.append(MARKER)
            else:
                lines.append(m.encode() + sym_bytes(ctx, 'p%d_%d' % (h, k), 1))
    if damage == 'flip-kind':
        # one changed line turns into the other kind (a "-" line into "+" or the reverse): one side is then short by
        # as much as the other is long
        idx = [i for i, kd in enumerate(kinds) if kd in '-+']
        i = idx[ctx.choose(0, len(idx) - 1, 'flipped-line')] if idx else None
        if i is not None:
            lines[i] = (b'+' if kinds[i] == '-' else b'-') + lines[i][1:]
    if damage == 'drop-last-line':
        lines = lines[:-1]
    elif damage == 'header-inside' and len(lines) > 2:
        lines.insert(2, b'@@ -1 +1 @@')
    wit = lambda m: {'lines': [model_bytes(m, l) for l in lines], 'ignore_garbage': ig}
    a = _outcome(lambda: UD.get_unified_diff_hunks(list(lines), ignore_garbage=ig), MalformedHunkError)
    if a[0] == 'exc':
        return viol('raised:%s' % type(a[1]).__name__, wit(ctx.model()))
    try:
        b = _outcome(lambda: RH.hunks(list(lines), ig), RH.Malformed)
    except RH.Unspecified:
        return verdict(ctx, [('exception-type', True)], witness=wit)
    if b[0] == 'exc':
        if isinstance(b[1], RH.Unspecified):
            return verdict(ctx, [('exception-type', True)], witness=wit)
        raise b[1]
    if a[0] != b[0]:
        return viol('outcome:%s-vs-ref-%s' % (a[0], b[0]), wit(ctx.model()))
    if a[0] == 'ok':
        props = [('result', value_eq(a[1], b[1]))]
    else:
        props = [('error-line', value_eq(a[1].line, b[1].line)), ('error-line_num', value_eq(a[1].line_num, b[1].line_num))]
    return verdict(ctx, props, witness=wit, sample=lambda m: dict(wit(m), outcome=a[0]))


def _extract():
    import os
    from sx.extract import ExtractError, loop_step, surround
    UD, _, _ = _mods()
    if os.environ.get('SX_FORCE_SKIP_STEPS'):
        return None, None, 'SX_FORCE_SKIP_STEPS set (experiment)'
    try:
        step, info = loop_step(UD.get_unified_diff_hunks)
        post, names = surround(UD.get_unified_diff_hunks)
    except (ExtractError, Exception) as e:
        return None, None, 'loop extraction failed: %s' % e
    if info['iter'] != 'enumerate(lines, start=1)' or info['target'] not in ('(line_num, line)', 'line_num, line'):
        return None, None, 'loop header changed: for %s in %s' % (info['target'], info['iter'])
    need = {'total_inserts', 'total_deletes', 'hunks', 'cur_hunk_entry', 'cur_hunk_orig', 'cur_hunk_modified',
            'hunk_orig_i', 'hunk_modified_i', 'line_num', 'line', 'ignore_garbage'}
    if not need <= set(info['names']):
        return None, None, 'state variables renamed: missing %s' % sorted(need - set(info['names']))
    # variables initialised before the loop are loop-carried state; the invariant only describes the known ones
    import ast as _ast
    carried = set()
    for stmt in info['pre']:
        for node in _ast.walk(_ast.parse(stmt)):
            if isinstance(node, _ast.Name) and isinstance(node.ctx, _ast.Store):
                carried.add(node.id)
    extra = carried - need - {'lines'}
    if extra:
        return None, None, 'new loop-carried state %s is not described by Inv_h' % sorted(extra)
    from sx.extract import stale_locals
    STALE_KW[0] = stale_locals(info, need | {'lines', '_sx_yield_'})
    return step, post, None


def obligations(tier):
    quick = tier == 'quick'
    obs = []
    L = 2 if quick else 3
    obs.append(Ob('whole[L<=%d]' % L, ob_whole, dict(Lmax=L, rich=not quick),
                  must_reach=['unified_diffs:get_unified_diff_hunks'],
                  desc='real get_unified_diff_hunks vs REF_HUNK on 0..%d symbolic template lines, both '
                       'ignore_garbage values (includes the empty list)' % L,
                  bounds={'lines': [0, L], 'templates': 'header(1-2 digit starts, optional 1-digit counts, optional '
                          'context/LF), free bytes 0..3, marker +-1 byte, "@@"+2 bytes'}))
    H = 2 if quick else 3
    if not quick:
        obs.append(Ob('hunk-sequences[H<=2,all-bodies]', ob_shapes, dict(H=2, bodies=BODIES),
                      must_reach=['unified_diffs:get_unified_diff_hunks'], path_timeout=40,
                      desc='as below with all %d bodies (marker positions included) in sequences of 1..2 hunks' % len(BODIES),
                      bounds={'hunks': [1, 2], 'bodies': len(BODIES)}))
    # (thorough, H=3: the damage menu of the committed end-to-end run; the length-preserving damages run in the H<=2
    # obligation above with all bodies -- with them here the obligation would pass its one-hour limit)
    obs.append(Ob('hunk-sequences[H<=%d]' % H, ob_shapes, dict(H=H, bodies=(BODIES[:5] + BODIES[8:11]) if quick else BODIES[:8],
                                                               damages=None if quick else ['none', 'none', 'drop-last-line', 'header-inside']),
                  must_reach=['unified_diffs:get_unified_diff_hunks'], path_timeout=40,
                  desc='real get_unified_diff_hunks vs REF_HUNK on sequences of 1..%d well-formed hunks from a catalogue '
                       'of bodies with different context (symbolic start lines and payload bytes, optional garbage, '
                       'omitted counts), intact or with single-point damage' % H,
                  bounds={'hunks': [1, H], 'bodies': 8}))
    step, post, why = _extract()
    if step is None:
        obs.append(('skipped', 'step[arbitrary-state]', why))
    else:
        obs.append(Ob('step[arbitrary-state]', ob_step, dict(rich=True, STEP=step),
                      must_reach=['get_unified_diff_hunks<step>'] if False else [],
                      desc='extracted loop body of get_unified_diff_hunks from an arbitrary state under Inv_h on one '
                           'symbolic line vs REF_HUNK.step (induction over any number of lines)',
                      bounds={'state': 'all counters/start lines symbolic Ints under Inv_h', 'line': 'one template line'}))
        obs.append(Ob('epilogue', ob_epilogue, dict(POST=post),
                      desc='code after the loop from an arbitrary final state vs REF_HUNK.finish',
                      bounds={'state': 'symbolic totals / line_num'}))
    return obs


CORPUS = [
    [], [b'@@ -1 +1 @@', b'-a', b'+b'], [b'@@ -1,2 +1,2 @@ ctx\n', b' a\n', b'-b\n', b'+c\n'], [b'garbage'],
    [b'@@ -1 +1 @@', b'-a'], [b'@@ -1 +1 @@', b'x'], [b'@@ -0,0 +1 @@', b'+a', b'\\ No newline at end of file'],
    [b'@@ -1 +1 @@', b'@@ -1 +1 @@'], [b'@@ x', b'@@ -1,0 +1,0 @@'], [b'@@ -1 +1 @@', b' \\ No newline at end of file ', b' a'],
    [b'@@ -3,2 +3,3 @@', b' a', b'+b', b' c', b'tail'],
]


def validate(tier):
    UD, MalformedHunkError, RH = _mods()
    n = 0
    step, post, why = _extract()

    def impl(lines, ig):
        try:
            return ('ok', UD.get_unified_diff_hunks(lines, ignore_garbage=ig))
        except MalformedHunkError as e:
            return ('mal', e.line, e.line_num)

    def ref(lines, ig):
        try:
            return ('ok', RH.hunks(lines, ig))
        except RH.Malformed as e:
            return ('mal', e.line, e.line_num)

    def folded(lines, ig):
        # the extracted step, iterated, must reproduce the real function
        st = dict(total_inserts=0, total_deletes=0, hunks=[], hunk_orig_i=0, hunk_modified_i=0, cur_hunk_entry=None,
                  cur_hunk_orig=None, cur_hunk_modified=None, ignore_garbage=ig, lines=lines)
        try:
            for i, l in enumerate(lines, 1):
                st['line_num'], st['line'] = i, l
                kind, loc = step(_sx_yield_=[], **{k: v for k, v in st.items()})
                st.update({k: loc[k] for k in st if k in loc})
                if kind == 'break':
                    break
            return ('ok', post(**{k: v for k, v in st.items() if k != 'ignore_garbage'}))
        except MalformedHunkError as e:
            return ('mal', e.line, e.line_num)
    for lines in CORPUS:
        for ig in (False, True):
            if lines:
                a = impl(lines, ig)
                assert V._plain(a) == V._plain(ref(lines, ig)), ('ref', lines, ig, a, ref(lines, ig))
                n += 1
                if step is not None:
                    f = folded(lines, ig)
                    assert V._plain(a) == V._plain(f), ('extracted step', lines, ig, a, f)
                    n += 1
                # pinned-symbolic run of the real function
                for i in range(len(lines)):
                    pass
                r = V.run_pinned(lambda *ls: impl(list(ls), ig), *lines)
                assert r[0] == 'ok' and V._plain(r[1]) == V._plain(a), ('pinned', lines, ig, a, r)
                n += 1
    return n


def replay(ob, label, w):
    from pydiffx.utils.unified_diffs import get_unified_diff_hunks
    from pydiffx.errors import MalformedHunkError
    import ref.hunks as RH
    if ob.startswith('whole') or ob.startswith('hunk-sequences'):
        lines, ig = w['lines'], w['ignore_garbage']
        try:
            a = ('ok', get_unified_diff_hunks(list(lines), ignore_garbage=ig))
        except MalformedHunkError as e:
            a = ('mal', e.line, e.line_num)
        except Exception as e:
            return {'violated': True, 'signature': 'hunks:raised:%s' % type(e).__name__,
                    'detail': 'get_unified_diff_hunks(%r, ignore_garbage=%r) -> %s: %s' % (lines, ig, type(e).__name__, e)}
        try:
            b = ('ok', RH.hunks(list(lines), ig))
        except RH.Malformed as e:
            b = ('mal', e.line, e.line_num)
        except RH.Unspecified:
            return {'violated': False}
        if a != b:
            return {'violated': True, 'signature': 'hunks:result-differs',
                    'detail': 'lines=%r ignore_garbage=%r: got %r, expected %r' % (lines, ig, a, b)}
        return {'violated': False}
    # step / epilogue counterexamples: re-derive through the public function by
    # building a line sequence that reaches the pre-state
    return _replay_step(ob, w, get_unified_diff_hunks, MalformedHunkError, RH)


def _replay_step(ob, w, impl, MalformedHunkError, RH):
    if ob == 'epilogue':
        return {'violated': False, 'error': 'epilogue witness has no public-API replay'}
    st = w['state']
    lines = []
    if w['in_hunk']:
        o, m = st['cur_hunk_orig'], st['cur_hunk_modified']
        oi, mi = st['hunk_orig_i'], st['hunk_modified_i']
        lines.append(b'@@ -%d,%d +%d,%d @@' % (o['start_line'] + 1, o['num_lines'], m['start_line'] + 1, m['num_lines']))
        body = _body_for(o, oi, m, mi)
        if body is None:
            return {'violated': False, 'error': 'pre-state not reachable by a simple body (invariant too weak?)'}
        lines += body
    lines.append(w['line'])
    res = []
    for tail in ([], [b' c'] * 3, [b'-d'] * 3 + [b'+e'] * 3):
        ls = lines + tail
        for ig in (w['ignore_garbage'],):
            try:
                a = ('ok', impl(list(ls), ignore_garbage=ig))
            except MalformedHunkError as e:
                a = ('mal', e.line, e.line_num)
            except Exception as e:
                return {'violated': True, 'signature': 'hunks:raised:%s' % type(e).__name__, 'detail': repr(ls)}
            try:
                b = ('ok', RH.hunks(list(ls), ig))
            except RH.Malformed as e:
                b = ('mal', e.line, e.line_num)
            except RH.Unspecified:
                continue
            if a != b:
                return {'violated': True, 'signature': 'hunks:result-differs',
                        'detail': 'lines=%r: got %r, expected %r' % (ls, a, b)}
    return {'violated': False}


def _body_for(o, oi, m, mi):
    """a hunk body prefix that drives the parser into the given per-side state"""
    def side(d, i):
        f, l = d['first_changed_line'], d['last_changed_line']
        if f is None:
            return [' '] * i
        f -= d['start_line']
        l -= d['start_line']
        c = d['num_lines_changed']
        seq = [' '] * i
        if not (0 <= f <= l < i) or c > l - f + 1 or c < (1 if f == l else 2):
            return None
        seq[f] = seq[l] = 'x'
        k = c - (1 if f == l else 2)
        j = f + 1
        while k > 0 and j < l:
            seq[j] = 'x'
            j += 1
            k -= 1
        if k:
            return None
        return seq
    so, sm = side(o, oi), side(m, mi)
    if so is None or sm is None:
        return None
    # merge: context lines must be shared
    out = []
    a = b = 0
    while a < len(so) or b < len(sm):
        if a < len(so) and so[a] == 'x':
            out.append(b'-o')
            a += 1
        elif b < len(sm) and sm[b] == 'x':
            out.append(b'+m')
            b += 1
        elif a < len(so) and b < len(sm):
            out.append(b' c')
            a += 1
            b += 1
        else:
            return None
    return out
