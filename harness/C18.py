"""C18 -- object-model instances are isolated and observers do not mutate."""
import z3

from sx.core import (Ctx, PathTimeout, SInt, SSeq, conj, lift, mk_seq, model_bytes, seq_eq, sym_bytes, sym_int, sym_str,
                     concretize_value)
from sx.instrument import SymDict, value_eq
from sx.run import Ob, ok, skip, verdict, viol
from sx.streams import SymStream

ASSUMPTIONS = [
    'bounded histories: after a fixed set-up (one constructed tree, two trees parsed with one shared DiffXDOMReader, one '
    'shared DiffXDOMWriter) every sequence of H operations from the menu (mutations with symbolic values, add_change / '
    'add_file, parse again, generate_stats, to_bytes, ==, repr) over the live trees',
    'aliasing does not depend on data: the solver contributes path feasibility and the value-level "no leak" queries; '
    'the history bound is the claim\'s bound',
]

SOURCE = (b'#diffx: encoding=utf-8, version=1.0\n#.preamble: indent=2, length=5, line_endings=unix\n  hi\n'
          b'#.meta: format=json, length=9\n{"a": 1}\n#.change:\n#..meta: length=9\n{"c": 2}\n#..file:\n'
          b'#...meta: format=json, length=14\n{"path": "x"}\n#...diff: length=26\n@@ -1 +1 @@\n-a\n+b\n z\n\n')
# (some content headers carry nothing but their length, so that option-less sections exist after parsing)


def _sections(t):
    out = [t, t.preamble_section, t.meta_section]
    for c in t.changes:
        out += [c, c.preamble_section, c.meta_section]
        for f in c.files:
            out += [f, f.meta_section, f.diff_section]
    return out


def mutable_ids(root, seen=None):
    """ids of every dict/list reachable from an object (through slots, dict values, list items)"""
    seen = {} if seen is None else seen
    stack = [root]
    visited = set()
    while stack:
        o = stack.pop()
        if id(o) in visited:
            continue
        visited.add(id(o))
        if isinstance(o, (SSeq, SInt, str, bytes, int, float, type(None), bool)):
            continue
        import types
        if isinstance(o, (type, types.FunctionType, types.MethodType, types.ModuleType, types.BuiltinFunctionType)):
            continue          # classes / code are not instance state
        if isinstance(o, dict):
            seen[id(o)] = o
            stack.extend(list(o.values()))
            continue
        if isinstance(o, (list, tuple, set)):
            if isinstance(o, list):
                seen[id(o)] = o
            stack.extend(list(o))
            continue
        for klass in type(o).__mro__:
            slots = getattr(klass, '__slots__', ()) or ()
            for s in ((slots,) if isinstance(slots, str) else slots):
                if isinstance(s, str) and hasattr(o, s):
                    try:
                        stack.append(object.__getattribute__(o, s))
                    except AttributeError:
                        pass
        if hasattr(o, '__dict__'):
            stack.extend(list(vars(o).values()))
    return seen


def class_defaults():
    from pydiffx.dom import objects as O
    seen = {}
    for name in dir(O):
        cls = getattr(O, name)
        if isinstance(cls, type):
            for attr in ('default_options', 'default_value'):
                v = cls.__dict__.get(attr)
                if isinstance(v, (dict, list)):
                    mutable_ids(v, seen)
    return seen


def snap(t):
    return [(s.section_id, list(s.options.items()), _copy(getattr(s, '_content', None))) for s in _sections(t)]


def _copy(v):
    if isinstance(v, dict):
        return {k: _copy(x) for k, x in v.items()}
    if isinstance(v, list):
        return [_copy(x) for x in v]
    return v


OPS = ['meta[k]=v', 'change.meta[k]=v', 'file.meta[k]=v', 'options[x]=v', 'preamble.options[indent]=v',
       'diff.options[x]=v', 'preamble=v', 'file.diff=v', 'meta.stats.nested=v', 'add_change', 'add_file', 'parse-again',
       'generate_stats', 'to_bytes-twice', '==', 'repr', 'meta.options[spec-option]=v',
       # an explicit container encoding that repeats / differs from the one it would inherit anyway
       'change.encoding=utf-8', 'change.encoding=latin-1', 'file.encoding=utf-8', 'file.encoding=latin-1']
OBSERVERS = {'to_bytes-twice', '==', 'repr'}


def apply_op(ctx, op, t, trees, shared, step, concrete=None):
    """perform one menu operation on tree t; returns an observer result or None"""
    from pydiffx import DiffX

    def val(kind):
        if concrete is not None:
            return concrete[kind]
        if kind == 'int':
            return sym_int(ctx, 'v%d' % step, 0, 7)
        if kind == 'str':
            return sym_str(ctx, 's%d' % step, 1, max_cp=0x7f)
        return sym_bytes(ctx, 'b%d' % step, 1)
    ch = t.changes[-1] if t.changes else None          # the most recently added ones (possibly left at defaults)
    fl = ch.files[-1] if ch and ch.files else None
    if op == 'meta[k]=v':
        t.meta['k%d' % step] = val('int')
    elif op == 'change.meta[k]=v' and ch:
        ch.meta['k%d' % step] = val('int')
    elif op == 'file.meta[k]=v' and fl:
        fl.meta['k%d' % step] = val('int')
    elif op == 'options[x]=v':
        t.options['x'] = val('str')
    elif op == 'preamble.options[indent]=v':
        t.preamble_section.options['indent'] = val('int')
    elif op == 'diff.options[x]=v' and fl:
        fl.diff_section.options['x'] = val('str')
    elif op == 'preamble=v':
        t.preamble = val('str')
    elif op == 'file.diff=v' and fl:
        fl.diff = val('bytes')
    elif op == 'meta.stats.nested=v':
        t.meta.setdefault('stats', {})['n%d' % step] = val('int')
    elif op == 'meta.options[spec-option]=v':
        # options the specification defines for content sections but the object model has no typed attribute for on
        # this section (what a file written by another tool carries after parsing)
        t.meta_section.options['line_endings'] = 'unix'
        if fl:
            fl.meta_section.options['line_endings'] = 'dos'
    elif op.startswith('change.encoding=') and ch:
        ch.encoding = op.split('=', 1)[1]
    elif op.startswith('file.encoding=') and fl:
        fl.encoding = op.split('=', 1)[1]
    elif op == 'add_change':
        t.add_change()
    elif op == 'add_file' and ch:
        ch.add_file()
    elif op == 'parse-again':
        if len(trees) < 4:
            trees.append(shared['reader'].parse(SymStream(SOURCE) if concrete is None else shared['mkstream'](SOURCE)))
    elif op == 'generate_stats':
        t.generate_stats()
    elif op == 'to_bytes-twice':
        # (a tree that does not serialise at all is C05's subject; here only: no mutation, repeatable)
        outs = []
        for _ in range(2):
            st1 = shared['mkstream'](b'')
            try:
                shared['writer'].write_stream(t, st1)
                outs.append(st1.getvalue())
            except Exception as e:
                outs.append(type(e).__name__.encode())
        return ('bytes', outs[0], outs[1])
    elif op == '==':
        return ('eq', bool(t == trees[0]), bool(t != trees[0]))
    elif op == 'repr':
        repr(t)
    return None


def setup_trees(mkstream):
    from pydiffx import DiffX
    from pydiffx.dom.reader import DiffXDOMReader
    from pydiffx.dom.writer import DiffXDOMWriter
    a = DiffX(preamble='top', meta={'m': 1})
    c = a.add_change(meta={'c': 2})
    c.add_file(meta={'path': 'x'}, diff=b'@@ -1 +1 @@\n-a\n+b\n')
    shared = {'reader': DiffXDOMReader(DiffX), 'writer': DiffXDOMWriter(), 'mkstream': mkstream}
    b = shared['reader'].parse(mkstream(SOURCE))
    c2 = shared['reader'].parse(mkstream(SOURCE))
    return [a, b, c2], shared


def check_disjoint(trees, shared):
    sets = [mutable_ids(t) for t in trees]
    names = ['tree%d' % i for i in range(len(trees))]
    sets.append(class_defaults())
    names.append('class-level defaults')
    sets.append(mutable_ids(shared['reader']))
    names.append('shared reader')
    sets.append(mutable_ids(shared['writer']))
    names.append('shared writer')
    # the writer's class-level option-name maps are constants shared by design; exclude pure str->str maps
    for i in range(len(sets)):
        for j in range(i + 1, len(sets)):
            common = set(sets[i]) & set(sets[j])
            common = {k for k in common if not _is_constant_map(sets[i][k])}
            if common:
                return '%s and %s share %s' % (names[i], names[j], [type(sets[i][k]).__name__ for k in common][:3])
    return None


def _is_constant_map(o):
    return False


def ob_history(ctx, H):
    trees, shared = setup_trees(lambda d: SymStream(d))
    hist = []
    for step in range(H):
        op = ctx.pick('op%d' % step, OPS)
        ti = ctx.choose(0, len(trees) - 1, 'tree%d' % step)
        t = trees[ti]
        before = [snap(x) for x in trees]
        hist.append([op, ti])
        wit = lambda m: {'history': hist}
        try:
            res = apply_op(ctx, op, t, trees, shared, step)
        except PathTimeout:
            raise
        except Exception as e:
            return viol('raised:%s' % type(e).__name__, dict(wit(None), error=str(e)[:200]))
        bad = check_disjoint(trees, shared)
        if bad:
            return viol('shared-mutable-state', dict(wit(None), detail=bad))
        after = [snap(x) for x in trees]
        props = []
        for i in range(len(before)):
            if i != ti or op in OBSERVERS:
                props.append(('other-tree-changed' if i != ti else 'observer-mutated-tree', value_eq(before[i], after[i])))
        if res and res[0] == 'bytes':
            props.append(('to_bytes-not-repeatable', seq_eq(res[1], res[2])))
        if res and res[0] == 'eq':
            props.append(('eq/ne-inconsistent', res[1] != res[2]))
        c = conj(x for _, x in props)
        if c is not True:
            out = verdict(ctx, props, witness=wit)
            if out['k'] != 'ok':
                return out
    return verdict(ctx, [('history', True)], witness=lambda m: {'history': hist}, sample=lambda m: {'history': hist})


def obligations(tier):
    H = 2 if tier == 'quick' else 3
    return [Ob('history[H=%d]' % H, ob_history, dict(H=H), must_reach=['DiffXDOMReader.parse', 'DiffXDOMWriter.write_stream'],
               path_timeout=30, desc='every sequence of %d menu operations (%d entries x live trees) after the set-up: mutable '
               'objects reachable from distinct trees / class defaults / shared reader and writer are pairwise disjoint; '
               'other trees\' snapshots unchanged (symbolic values); observers leave the tree unchanged; to_bytes repeatable'
               % (H, len(OPS)), bounds={'ops': H, 'menu': len(OPS), 'live_trees': [3, 4]})]


def validate(tier):
    import io
    trees, shared = setup_trees(lambda d: io.BytesIO(d))
    assert check_disjoint(trees, shared) is None
    assert trees[1] == trees[2]
    return 2


def replay(ob, label, w):
    import io
    trees, shared = setup_trees(lambda d: io.BytesIO(d))
    concrete = {'int': 5, 'str': 'q', 'bytes': b'Q'}
    for step, (op, ti) in enumerate(w['history']):
        t = trees[ti]
        before = [repr(snap(x)) for x in trees]
        try:
            res = apply_op(None, op, t, trees, shared, step, concrete)
        except Exception as e:
            return {'violated': True, 'signature': 'isolation:raised:%s' % type(e).__name__, 'detail': '%r: %s' % (w['history'], e)}
        bad = check_disjoint(trees, shared)
        if bad:
            return {'violated': True, 'signature': 'isolation:shared-mutable-state', 'detail': '%s after %r' % (bad, w['history'][:step + 1])}
        after = [repr(snap(x)) for x in trees]
        for i in range(len(before)):
            if (i != ti or op in OBSERVERS) and before[i] != after[i]:
                return {'violated': True, 'signature': 'isolation:%s' % ('observer-mutates' if i == ti else 'leak'),
                        'detail': 'op %r on tree %d changed tree %d: %s -> %s' % (op, ti, i, before[i][:200], after[i][:200])}
        if res and res[0] == 'bytes' and res[1] != res[2]:
            return {'violated': True, 'signature': 'isolation:to_bytes-not-repeatable', 'detail': repr(w['history'])}
        if res and res[0] == 'eq' and res[1] == res[2]:
            return {'violated': True, 'signature': 'isolation:eq-ne-inconsistent', 'detail': repr(w['history'])}
    return {'violated': False}
