"""C01 -- streaming write -> read round trip preserves structure, content, options."""
import json

import z3

from sx import validate as V
from sx.core import (Ctx, PathTimeout, conj, lift, mk_seq, model_bytes, model_str, seq_eq, sym_bytes, sym_str)
from sx.instrument import value_eq
from sx.run import Ob, ok, skip, verdict, viol
from sx.streams import SymStream

from harness import rw
from harness.rw import E8, E10, NL, Script, norm_bytes, norm_text, prefix_for, suffix_for

ASSUMPTIONS = [
    'one content section is symbolic per run (text / diff bytes fully symbolic up to the stated length), the '
    'containers around it are concrete; longer call sequences follow from C02+C03+C04 (composition stated in DESIGN)',
    'encodings from the catalogue E8 (+utf-8-sig, utf-32-le in thorough); codec models validated against the platform',
    'metadata is drawn from a concrete catalogue of JSON objects (json itself is outside the model)',
    'calls the writer rejects (text not encodable in the effective codec) are skipped here; rejection is C09',
]

METAS = [
    {'a': 1}, {'path': 'file.txt', 'revision': {'old': 'abc', 'new': 'def'}}, {'k': [1, 2, {'x': None}], 't': True},
    {'unicode': 'héllo € \U0001f600', 'nl': 'a\nb\r\n', 'hash': '#.meta: length=1'}, {'stats': {'insertions': 0}},
]


def _mods():
    from pydiffx.reader import DiffXReader
    from pydiffx.writer import DiffXWriter
    return DiffXReader, DiffXWriter


def _write_read(ctx, script, wit, meta_only=False):
    """run the writer script, read the bytes back; returns (records, data) or an outcome dict"""
    DiffXReader, DiffXWriter = _mods()
    st = SymStream()
    try:
        script.run(DiffXWriter, st)
    except UnicodeEncodeError:
        if meta_only:
            # JSON metadata is ASCII-only text (escapes): every supported codec can encode it, so the writer has
            # no reason to reject a JSON object
            return viol('writer-rejects-metadata', dict(wit(ctx.model()))), None
        return skip('text not encodable in the effective codec (writer rejects; C09)'), None
    data = st.value()
    try:
        recs = list(DiffXReader(SymStream(data)))
    except PathTimeout:
        raise
    except Exception as e:
        m = ctx.model()
        return viol('reader-rejects-writer-output:%s' % type(e).__name__,
                    dict(wit(m), data=model_bytes(m, data), error=str(e)[:200])), None
    return recs, data


def _structure_props(script, recs):
    """one record per written section, in order, same id and level, given options"""
    exp = [('diffx', {'version': '1.0', 'encoding': script.main_encoding} if script.main_encoding is not None
            else {'version': '1.0'})]
    for sid, fn, a, k in script.calls:
        exp.append((sid, k))
    if [r['section'] for r in recs] != [e[0] for e in exp]:
        return None
    props = []
    for r, (sid, k) in zip(recs, exp):
        props.append(('level', r['level'] == sid.count('.')))
        props.append(('type', r['type'] == sid.lstrip('.')))
        if sid in ('diffx', '.change', '..file'):
            want = {kk: vv for kk, vv in k.items() if vv is not None}
            props.append(('container-options', value_eq(dict(r['options'].items()), want)))
    return props


def ob_preamble(ctx, sid, N, encs, indents, les, mimetypes):
    own, inherited = ctx.pick('enc', encs)
    indent = ctx.pick('indent', indents)
    le = ctx.pick('line_endings', les)
    mt = ctx.pick('mimetype', mimetypes)
    n = ctx.choose(1, N, 'n')
    text = sym_str(ctx, 't', n)
    script = prefix_for(sid, Script(inherited))
    kw = {}
    if own is not None:
        kw['encoding'] = own
    if indent != 'default':
        kw['indent'] = indent
    if le is not None:
        kw['line_endings'] = le
    if mt is not None:
        kw['mimetype'] = mt
    script.add(sid, 'write_preamble', text, **kw)
    suffix_for(sid, script)
    wit = lambda m: {'kind': 'preamble', 'sid': sid, 'main_encoding': inherited, 'text': model_str(m, text), 'kw': kw}
    recs, data = _write_read(ctx, script, wit)
    if data is None:
        return recs
    props = _structure_props(script, recs)
    if props is None:
        m = ctx.model()
        return viol('record-sequence', dict(wit(m), got=[r['section'] for r in recs]))
    rec = [r for r in recs if r['section'] == sid][0]
    exp_text, exp_le = norm_text(text, le)
    props.append(('text', seq_eq(rec.get('text'), exp_text)))
    eff_indent = 4 if indent == 'default' else indent
    want = {'line_endings': exp_le, 'indent': eff_indent}
    if own is not None:
        want['encoding'] = own
    if mt is not None:
        want['mimetype'] = mt
    got = dict(rec['options'].items())
    length = got.pop('length', None)
    props.append(('options', value_eq(got, want)))
    props.append(('length-is-int', isinstance(length, int) and not isinstance(length, bool)))
    return verdict(ctx, props, witness=wit,
                   sample=lambda m: dict(wit(m), read_back=model_str(m, rec.get('text'))))


def ob_diff(ctx, N, encs, les, types):
    own = ctx.pick('enc', encs)
    le = ctx.pick('line_endings', les)
    dt = ctx.pick('diff_type', types)
    n = ctx.choose(1, N, 'n')
    content = sym_bytes(ctx, 'd', n)
    fenc = ctx.pick('file.enc', [None, 'utf-16'])        # the metadata right before the diff may be UTF-16
    script = Script('utf-8').add('.change', 'new_change').add('..file', 'new_file', **({} if fenc is None else {'encoding': fenc}))
    script.add('...meta', 'write_meta', {'path': 'f'})
    kw = {}
    if own is not None:
        kw['encoding'] = own
    if le is not None:
        kw['line_endings'] = le
    if dt is not None:
        kw['diff_type'] = dt
    script.add('...diff', 'write_diff', content, **kw)
    script.add('..file', 'new_file').add('...meta', 'write_meta', {'path': 'g'})
    wit = lambda m: {'kind': 'diff', 'content': model_bytes(m, content), 'kw': kw, 'file_enc': fenc}
    recs, data = _write_read(ctx, script, wit)
    if data is None:
        return recs
    props = _structure_props(script, recs)
    if props is None:
        return viol('record-sequence', dict(wit(ctx.model()), got=[r['section'] for r in recs]))
    rec = [r for r in recs if r['section'] == '...diff'][0]
    exp, exp_le = norm_bytes(content, le, own)
    props.append(('diff-bytes', seq_eq(rec.get('diff'), exp)))
    want = {'line_endings': exp_le, 'length': len(lift(exp).el)}
    if own is not None:
        want['encoding'] = own
    if dt is not None:
        want['type'] = dt
    props.append(('options', value_eq(dict(rec['options'].items()), want)))
    return verdict(ctx, props, witness=wit, sample=lambda m: dict(wit(m), read_back=model_bytes(m, rec.get('diff'))))


def ob_meta(ctx, encs):
    """metadata (concrete catalogue) under every own/inherited encoding, all three levels"""
    sid = ctx.pick('sid', ['.meta', '..meta', '...meta'])
    own, inherited = ctx.pick('enc', encs)
    md = ctx.pick('meta', METAS)
    script = prefix_for(sid, Script(inherited))
    kw = {} if own is None else {'encoding': own}
    script.add(sid, 'write_meta', md, **kw)
    if sid != '...meta':
        suffix_for(sid, script)
    wit = lambda m: {'kind': 'meta', 'sid': sid, 'main_encoding': inherited, 'meta': md, 'kw': kw}
    recs, data = _write_read(ctx, script, wit, meta_only=True)
    if data is None:
        return recs
    props = _structure_props(script, recs)
    if props is None:
        return viol('record-sequence', dict(wit(ctx.model()), got=[r['section'] for r in recs]))
    rec = [r for r in recs if r['section'] == sid][0]
    props.append(('metadata', json.loads(json.dumps(rec.get('metadata'))) == json.loads(json.dumps(md))))
    got = dict(rec['options'].items())
    got.pop('length', None)
    want = {'format': 'json'}
    if own is not None:
        want['encoding'] = own
    props.append(('options', got == want))
    return verdict(ctx, props, witness=wit, sample=lambda m: wit(m))


def ob_meta_sym(ctx, encs, N):
    """metadata with a symbolic string and a symbolic integer: written by the real writer (real json.dumps call site,
    JSON text produced by CPython's pure-Python encoder under instrumentation), encoded, framed, read back and parsed"""
    from harness.rw import sym_meta, json_normal_form
    from sx.core import concretize_value
    sid = ctx.pick('sid', ['.meta', '..meta', '...meta'])
    own, inherited = ctx.pick('enc', encs)
    md = sym_meta(ctx, N)
    script = prefix_for(sid, Script(inherited))
    kw = {} if own is None else {'encoding': own}
    script.add(sid, 'write_meta', md, **kw)
    if sid != '...meta':
        suffix_for(sid, script)
    wit = lambda m: {'kind': 'meta', 'sid': sid, 'main_encoding': inherited, 'meta': concretize_value(m, md), 'kw': kw}
    recs, data = _write_read(ctx, script, wit, meta_only=True)
    if data is None:
        return recs
    props = _structure_props(script, recs)
    if props is None:
        return viol('record-sequence', dict(wit(ctx.model()), got=[r['section'] for r in recs]))
    rec = [r for r in recs if r['section'] == sid][0]
    props.append(('metadata', value_eq(rec.get('metadata'), json_normal_form(md))))
    got = dict(rec['options'].items())
    got.pop('length', None)
    want = {'format': 'json'}
    if own is not None:
        want['encoding'] = own
    props.append(('options', got == want))
    return verdict(ctx, props, witness=wit, sample=lambda m: wit(m))


def ob_history(ctx, K, encs, N):
    """container histories (main -> change -> file -> file -> change ...): every container declares an encoding
    or not; each is followed by a probe section whose decoding depends on the effective encoding"""
    script, probes, wit = history_script(ctx, K, encs, N)
    recs, data = _write_read(ctx, script, wit)
    if data is None:
        return recs
    props = _structure_props(script, recs)
    if props is None:
        return viol('record-sequence', dict(wit(ctx.model()), got=[r['section'] for r in recs]))
    for idx, t in probes:
        exp, _ = norm_text(t, None)
        props.append(('probe-text', seq_eq(recs[idx].get('text'), exp)))
    for r, (sid, fn, a, k) in zip(recs[1:], script.calls):
        if fn == 'write_meta':
            props.append(('meta', r.get('metadata') == a[0]))
        if fn == 'write_diff':
            props.append(('diff', seq_eq(r.get('diff'), a[0])))
    return verdict(ctx, props, witness=wit, sample=lambda m: wit(m))


def history_script(ctx, K, encs, N):
    main_enc = ctx.pick('main', encs)
    script = Script(main_enc)
    probes = []
    state = 'main'
    nchanges = 0
    for step in range(K):
        if state == 'main':
            nxt = 'change'
        elif state == 'change':
            nxt = 'file'
        else:
            nxt = ['file', 'change', 'stop'][ctx.choose(0, 2, 'next%d' % step)]
        if nxt == 'stop':
            break
        enc = ctx.pick('enc%d' % step, [None] + encs)
        if nxt == 'change':
            script.add('.change', 'new_change', **({} if enc is None else {'encoding': enc}))
            if ctx.choose(0, 1, 'probe%d' % step):
                t = sym_str(ctx, 'p%d' % step, ctx.choose(1, N, 'pn%d' % step))
                script.add('..preamble', 'write_preamble', t, indent=ctx.pick('ind%d' % step, [0, 2]))
                probes.append((len(script.calls), t))
            state = 'change'
        else:
            script.add('..file', 'new_file', **({} if enc is None else {'encoding': enc}))
            script.add('...meta', 'write_meta', {'path': 'f%d' % step, 'note': 'café'})
            if step % 2 == 0:
                # a diff right after metadata that was written under the effective encoding: diffs never inherit
                script.add('...diff', 'write_diff', b'--- a\n+++ b\n@@ -1 +1 @@\n-\xe9\n+\xc3\xa9\n')
            state = 'file'
    if state != 'file':
        if state == 'main':
            script.add('.change', 'new_change')
        script.add('..file', 'new_file').add('...meta', 'write_meta', {'path': 'last'})

    def wit(m):
        calls = []
        for sid, fn, a, k in script.calls:
            calls.append([fn, [model_str(m, x) if isinstance(x, (str,)) or hasattr(x, 'el') else x for x in a], k])
        return {'kind': 'history', 'main_encoding': main_enc, 'calls': calls}
    return script, probes, wit


def _enc_configs(cat):
    return [(e, 'utf-8') for e in cat] + [(None, e) for e in cat]


def obligations(tier):
    quick = tier == 'quick'
    cat = E8 if quick else E10
    N = 3 if quick else 4
    obs = []
    for sid in ('.preamble', '..preamble'):
        obs.append(Ob('preamble[%s]' % sid, ob_preamble,
                      dict(sid=sid, N=N if sid == '..preamble' else max(1, N - 1), encs=_enc_configs(cat),
                           indents=['default', 0, 2] if quick else ['default', 0, 1, 2, 5],
                           les=[None, 'unix', 'dos'], mimetypes=[None] if sid == '..preamble' else [None, 'text/markdown']),
                      must_reach=['DiffXWriter._prepare_content', 'DiffXReader._read_content'], path_timeout=30,
                      desc='writer then reader; %s text fully symbolic (1..%d code points), own/inherited encoding, '
                           'indent, line_endings, mimetype enumerated' % (sid, N),
                      bounds={'text_len': [1, N], 'encodings': cat}))
    obs.append(Ob('diff', ob_diff, dict(N=N + 1, encs=[None] + cat, les=[None, 'unix', 'dos'],
                                        types=[None, 'binary'] if quick else [None, 'text', 'binary']),
                  must_reach=['DiffXWriter.write_diff', 'DiffXReader._read_content'], path_timeout=30,
                  desc='writer then reader; diff bytes fully symbolic (1..%d bytes)' % (N + 1),
                  bounds={'diff_len': [1, N + 1], 'encodings': [None] + cat}))
    obs.append(Ob('meta', ob_meta, dict(encs=_enc_configs(cat)), must_reach=['DiffXWriter.write_meta'],
                  desc='metadata catalogue x own/inherited encodings x 3 levels (concrete JSON)',
                  bounds={'catalogue': len(METAS)}))
    NM = 1 if quick else 2
    menc = [(None, 'utf-8'), ('utf-16', 'utf-8'), (None, 'utf-32-be'), ('latin-1', 'utf-16'), (None, 'ascii')]
    if not quick:
        menc = menc + [('utf-8-sig', 'latin-1'), (None, 'utf-16-be'), ('utf-32', 'utf-8')]
    obs.append(Ob('meta[symbolic]', ob_meta_sym, dict(encs=menc, N=NM), must_reach=['DiffXWriter.write_meta'],
                  path_timeout=30,
                  desc='metadata object with a symbolic string of 1..%d arbitrary code points and a symbolic integer, '
                       'every own/inherited encoding, three levels: read back equal as a JSON value' % NM,
                  bounds={'string_len': [1, NM], 'int': [-1, 1], 'encodings': len(menc)}))
    K = 4 if quick else 5
    obs.append(Ob('history[K<=%d]' % K, ob_history, dict(K=K, encs=['utf-16', 'latin-1'] if quick else
                                                        ['utf-16', 'latin-1', 'utf-32-be'], N=1),
                  must_reach=['DiffXWriter._new_container_section', 'DiffXReader.iter_sections'], path_timeout=30,
                  desc='container histories up to %d containers, each declaring an encoding or not, symbolic probe '
                       'preambles under the inherited encoding' % K,
                  bounds={'containers': K}))
    return obs


def validate(tier):
    """the repo's own writer scenarios through the engine with pinned-symbolic contents"""
    DiffXReader, DiffXWriter = _mods()
    n = 0

    def rt(text, enc, indent, le):
        st = SymStream()
        w = DiffXWriter(st)
        w.new_change()
        w.write_preamble(text, encoding=enc, indent=indent, line_endings=le)
        w.new_file()
        w.write_meta({'a': 1})
        data = st.value()
        return [data, [(r['section'], dict(r['options'].items()), r.get('text')) for r in DiffXReader(SymStream(data))]]
    for text in ['hi', 'a\nb', 'a\r\nb\r\n', ' x\n', '#.meta: x\n', 'hé\n', '﻿z']:
        for enc in (None, 'utf-16', 'utf-32-be', 'latin-1'):
            for indent in (0, 2):
                for le in (None, 'dos'):
                    n += V.check_same('write+read preamble', lambda t, enc=enc, indent=indent, le=le: rt(t, enc, indent, le), text)

    def rd(content, enc, le):
        st = SymStream()
        w = DiffXWriter(st)
        w.new_change()
        w.new_file()
        w.write_meta({'a': 1})
        w.write_diff(content, encoding=enc, line_endings=le)
        data = st.value()
        return [data, [(r['section'], dict(r['options'].items()), r.get('diff')) for r in DiffXReader(SymStream(data))]]
    for content in [b'x', b'--- a\n+++ b\n', b'a\r\nb', b'\x00\xff\n', 'h\n'.encode('utf-16')]:
        for enc in (None, 'utf-16', 'utf-8'):
            for le in (None, 'unix', 'dos'):
                n += V.check_same('write+read diff', lambda c, enc=enc, le=le: rd(c, enc, le), content)
    return n


def replay(ob, label, w):
    import io
    from pydiffx.reader import DiffXReader
    from pydiffx.writer import DiffXWriter
    kind = w['kind']
    st = io.BytesIO()
    try:
        if kind == 'preamble':
            sid = w['sid']
            script = prefix_for(sid, Script(w['main_encoding']))
            script.add(sid, 'write_preamble', w['text'], **w['kw'])
            suffix_for(sid, script)
        elif kind == 'diff':
            fe = w.get('file_enc')
            script = Script('utf-8').add('.change', 'new_change').add('..file', 'new_file', **({} if fe is None else {'encoding': fe}))
            script.add('...meta', 'write_meta', {'path': 'f'})
            script.add('...diff', 'write_diff', w['content'], **w['kw'])
            script.add('..file', 'new_file').add('...meta', 'write_meta', {'path': 'g'})
        elif kind == 'meta':
            sid = w['sid']
            script = prefix_for(sid, Script(w['main_encoding']))
            script.add(sid, 'write_meta', w['meta'], **w['kw'])
            if sid != '...meta':
                suffix_for(sid, script)
        else:
            script = Script(w['main_encoding'])
            sids = {'new_change': '.change', 'new_file': '..file', 'write_preamble': '..preamble', 'write_meta': '...meta', 'write_diff': '...diff'}
            for fn, a, k in w['calls']:
                script.add(sids[fn], fn, *a, **k)
        script.run(DiffXWriter, st)
    except UnicodeEncodeError as e:
        if kind == 'meta':
            return {'violated': True, 'signature': 'roundtrip:writer-rejects-metadata', 'detail': '%s for %r' % (e, w['meta'])}
        return {'violated': False, 'error': 'writer rejects (unencodable)'}
    data = st.getvalue()
    try:
        recs = list(DiffXReader(io.BytesIO(data)))
    except Exception as e:
        return {'violated': True, 'signature': 'roundtrip:reader-rejects-writer-output',
                'detail': '%s: %s on %r' % (type(e).__name__, e, data)}
    exp_ids = ['diffx'] + [c[0] for c in script.calls]
    if [r['section'] for r in recs] != exp_ids:
        return {'violated': True, 'signature': 'roundtrip:record-sequence', 'detail': '%r vs %r' % ([r['section'] for r in recs], exp_ids)}
    bad = []
    for r, (sid, fn, a, k) in zip(recs[1:], script.calls):
        if fn == 'write_preamble':
            exp, le = norm_text(a[0], k.get('line_endings'))
            if r.get('text') != exp:
                bad.append('text %r != %r' % (r.get('text'), exp))
            opts = dict(r['options'])
            opts.pop('length', None)
            want = {'line_endings': le, 'indent': k.get('indent', 4)}
            for kk in ('encoding', 'mimetype'):
                if k.get(kk) is not None:
                    want[kk] = k[kk]
            if opts != want:
                bad.append('options %r != %r' % (opts, want))
        elif fn == 'write_diff':
            exp, le = norm_bytes(a[0], k.get('line_endings'), k.get('encoding'))
            if r.get('diff') != exp:
                bad.append('diff %r != %r' % (r.get('diff'), exp))
            want = {'line_endings': le, 'length': len(exp)}
            if k.get('encoding') is not None:
                want['encoding'] = k['encoding']
            if k.get('diff_type') is not None:
                want['type'] = k['diff_type']
            if dict(r['options']) != want:
                bad.append('options %r != %r' % (dict(r['options']), want))
        elif fn == 'write_meta':
            import json
            if r.get('metadata') != json.loads(json.dumps(a[0])):
                bad.append('metadata %r != %r' % (r.get('metadata'), a[0]))
        else:
            want = {kk: vv for kk, vv in k.items() if vv is not None}
            if dict(r['options']) != want:
                bad.append('container options %r != %r' % (dict(r['options']), want))
    if bad:
        return {'violated': True, 'signature': 'roundtrip:content-or-options', 'detail': '; '.join(bad)[:600] + ' file=%r' % data[:300]}
    return {'violated': False}
