"""Shared pieces of the object-model harnesses (C05, C06): symbolic tree builder, the
documented normalisation, REF_DOM_CALLS (the writer calls a tree implies)."""
import z3

from sx.core import (Ctx, lift, mk_seq, model_bytes, model_str, sym_bytes, sym_str, concretize_value)
from sx.instrument import value_eq

from harness.rw import Script, norm_bytes, norm_text

ENC_CHOICES = [None, 'utf-16', 'latin-1']


# environment profiles: (main enc, change enc, file enc, main meta, change meta, change meta enc,
#                        non-focus preambles present, non-focus diffs present, number of files)
PROFILES = [
    ('utf-8', None, None, False, False, False, False, False, 1),
    ('utf-16', None, None, True, True, False, True, True, 1),
    ('utf-8', 'utf-16', None, False, True, True, True, False, 2),
    ('utf-8', 'latin-1', 'utf-16', True, False, False, False, True, 2),
    ('utf-16', 'utf-8', None, True, True, True, True, True, 1),
    ('utf-32-be', None, 'latin-1', False, False, False, True, True, 2),
]
PROFILES_RICH = PROFILES + [
    ('utf-8', 'utf-32-be', 'utf-16', True, True, True, True, True, 2),
    ('latin-1', None, 'utf-8', True, True, False, False, False, 1),
    ('utf-16', 'utf-16', 'utf-16', False, True, True, False, True, 2),
    ('utf-8', None, 'utf-16', True, False, False, True, False, 2),
]


def build_tree(ctx, N, nfiles_max=1, rich=False):
    """a DiffX tree built through the public constructors / typed attributes.  Path economy: exactly one section
    (the focus) carries symbolic content and has its options enumerated; everything around it comes from a
    catalogue of environment profiles (encodings on main/change/file, which other sections are present)."""
    from pydiffx import DiffX
    prof = ctx.pick('profile', [p for p in (PROFILES_RICH if rich else PROFILES) if p[8] <= nfiles_max])
    main_enc, ce, fe, main_meta, change_meta, change_meta_enc, others_pre, others_diff, nf = prof
    d = DiffX(encoding=main_enc)
    focus = ctx.pick('symbolic-section', ['main.preamble', 'change.preamble', 'diff', 'file.meta'])

    def preamble(owner, tag):
        if focus == tag + '.preamble':
            n = ctx.choose(1, N, tag + '.preamble.len')
            owner.preamble = sym_str(ctx, tag + 'p', n)
        else:
            if others_pre:
                owner.preamble = 'Text\nmore'
            return
        ind = ctx.pick(tag + '.preamble.indent', ['unset', 0, 2])
        if ind != 'unset':
            owner.preamble_indent = ind
        le = ctx.pick(tag + '.preamble.line_endings', [None, 'dos'] if not rich else [None, 'unix', 'dos'])
        if le:
            owner.preamble_line_endings = le
        enc = ctx.pick(tag + '.preamble.encoding', ENC_CHOICES[:2] if not rich else ENC_CHOICES)
        if enc:
            owner.preamble_encoding = enc
        if rich and ctx.choose(0, 1, tag + '.preamble.mimetype'):
            owner.preamble_mimetype = 'text/markdown'
    preamble(d, 'main')
    if main_meta:
        d.meta = {'title': 'é', 'n': 1}
    c = d.add_change()
    if ce:
        c.encoding = ce
    preamble(c, 'change')
    if change_meta:
        c.meta = {'author': 'ü'}
        if change_meta_enc:
            c.meta_encoding = 'utf-32-be'
    for j in range(nf):
        if focus == 'file.meta' and j == 0:
            from harness.rw import sym_meta
            f = c.add_file(meta=sym_meta(ctx, 1))
            if ctx.choose(0, 1, 'meta.encoding'):
                f.meta_encoding = 'utf-16'
        else:
            f = c.add_file(meta={'path': 'f%d' % j})
        if fe and j == 0:
            f.encoding = fe
        if focus == 'diff' and j == 0:
            dn = ctx.choose(1, N + 1, 'diff.len')
            f.diff = sym_bytes(ctx, 'f%dd' % j, dn)
            dle = ctx.pick('diff.line_endings', [None, 'unix', 'dos'] if rich else [None, 'dos'])
            if dle:
                f.diff_line_endings = dle
            de = ctx.pick('diff.encoding', [None, 'utf-16'])
            if de:
                f.diff_encoding = de
            if ctx.choose(0, 1, 'diff.type'):
                f.diff_type = 'binary'
        elif others_diff:
            f.diff = b'--- a\n+++ b\n'
    return d


def sections_of(t):
    out = [('diffx', t), ('.preamble', t.preamble_section), ('.meta', t.meta_section)]
    for c in t.changes:
        out += [('.change', c), ('..preamble', c.preamble_section), ('..meta', c.meta_section)]
        for f in c.files:
            out += [('..file', f), ('...meta', f.meta_section), ('...diff', f.diff_section)]
    return out


def tree_script(t):
    """REF_DOM_CALLS: the writer calls a tree implies (empty content sections skipped, option renames)"""
    o = dict(t.options.items())
    sc = Script(o.get('encoding'))
    for sid, s in sections_of(t)[1:]:
        opts = dict(s.options.items())
        if sid in ('.change', '..file'):
            sc.add(sid, 'new_change' if sid == '.change' else 'new_file', **opts)
        else:
            content = s.content
            if not content:
                continue
            if sid.endswith('preamble'):
                sc.add(sid, 'write_preamble', content, **opts)
            elif sid.endswith('meta'):
                kw = {('meta_format' if k == 'format' else k): v for k, v in opts.items()}
                sc.add(sid, 'write_meta', content, **kw)
            else:
                kw = {('diff_type' if k == 'type' else k): v for k, v in opts.items()}
                sc.add(sid, 'write_diff', content, **kw)
    return sc


def normalised(t):
    """the documented normalisation of a tree: list of (section id, options, content) after a write/parse cycle"""
    out = []
    for sid, s in sections_of(t):
        opts = dict(s.options.items())
        content = getattr(s, 'content', None) if sid not in ('diffx', '.change', '..file') else None
        if sid.endswith('preamble'):
            if content:
                content, le = norm_text(content, opts.get('line_endings'))
                opts['line_endings'] = le
                opts.setdefault('indent', 4)
            else:
                content, opts = None, {}
        elif sid.endswith('meta'):
            if content:
                opts.setdefault('format', 'json')
                # 'equal as a JSON value': after one trip through JSON text (json merges a high surrogate directly
                # followed by a low one into one character; tuples become lists)
                from harness.rw import json_normal_form
                content = json_normal_form(content)
            else:
                content, opts = {}, {'format': 'json'}
        elif sid.endswith('diff'):
            if content:
                content, le = norm_bytes(content, opts.get('line_endings'), opts.get('encoding'))
                opts['line_endings'] = le
            else:
                content, opts = None, {}
        out.append((sid, opts, content))
    return out


def actual(t):
    out = []
    for sid, s in sections_of(t):
        out.append((sid, dict(s.options.items()),
                    getattr(s, 'content', None) if sid not in ('diffx', '.change', '..file') else None))
    return out


def describe(m, t):
    return describe_actual(m, actual(t))


def describe_actual(m, act):
    """description from a snapshot taken by actual() (use the one taken *before* the code under test ran: a tree the
    code mutated would otherwise be described in its mutated form and the replay would start from the wrong tree)"""
    return [(sid, concretize_value(m, o), concretize_value(m, c)) for sid, o, c in act]


def rebuild(desc):
    """a concrete tree from a description produced by describe()"""
    from pydiffx import DiffX
    d = DiffX()
    cur_c = cur_f = None
    for sid, opts, content in desc:
        if sid == 'diffx':
            sec = d
        elif sid == '.preamble':
            sec = d.preamble_section
        elif sid == '.meta':
            sec = d.meta_section
        elif sid == '.change':
            cur_c = d.add_change()
            sec = cur_c
        elif sid == '..preamble':
            sec = cur_c.preamble_section
        elif sid == '..meta':
            sec = cur_c.meta_section
        elif sid == '..file':
            cur_f = cur_c.add_file()
            sec = cur_f
        elif sid == '...meta':
            sec = cur_f.meta_section
        else:
            sec = cur_f.diff_section
        sec.options.clear()
        sec.options.update(opts)
        if sid not in ('diffx', '.change', '..file'):
            try:
                if content is not None:
                    sec.content = content       # public, validating setter
                    continue
            except Exception:
                pass
            if hasattr(sec, '_content'):
                sec._content = content
    return d
