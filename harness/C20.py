"""C20 -- the syntax highlighter is lossless and tags every section header."""
import z3

from sx import instrument
from sx.core import (Ctx, PathTimeout, conj, el_eq, lift, mk_seq, model_str, neg, seq_eq, sym_str)
from sx.run import Ob, ok, skip, verdict, viol
from sx.streams import SymStream

REPLAY_TIMEOUT = 8
HANG_IS_VIOLATION = True

ASSUMPTIONS = [
    'the real pygments.lexer.RegexLexer driver runs under the same instrumentation (its re.compile(...).match becomes the '
    'exact regex model); the delegated third-party lexers (JsonLexer, DiffLexer) are replaced by lossless identity stubs '
    'during symbolic runs (the diff sub-lexer stub is line based: a chunk without a final newline ends in Error tokens, '
    'as with the real DiffLexer) and are real in the replay',
    'text fully symbolic up to the stated length; rule-header prefixes + symbolic tails; UTF-8 writer output with one '
    'symbolic content section that contains no "#." sequence',
    'termination = the tokenisation finishes within the per-path time limit',
]

PREFIXES = ['#diffx:', '#.change:', '#..file:', '#.meta:', '#..meta: length=2\n', '#.preamble:', '#..preamble: x=1\n',
            '#...diff:', '#...diff: length=3\n', '#...diff: length=9\ndelta 12\n', '...\n', '#.meta: l=1\n{}\n#.change:\n#',
            '#...diff:\n...\n']


def setup():
    instrument.install('pygments.lexer', exact=True)


_LEXER = []


def _lexer():
    if not _LEXER:
        from pygments.token import Text
        import pygments.lexers.data as D
        import pygments.lexers.diff as DF

        from pygments.token import Error

        def ident(self, text, *a, **k):
            yield 0, Text, text

        def line_based(self, text, *a, **k):
            # DiffLexer's contract as far as this lexer is concerned: every rule of it consumes a whole line including
            # its newline, so a chunk handed over without a final newline ends in one Error token per character
            t = lift(text)
            i = t.rfind('\n')
            if i >= 0:
                yield 0, Text, text[:i + 1]
            for j in range(i + 1, len(t.el)):
                yield j, Error, text[j:j + 1]
        D.JsonLexer.get_tokens_unprocessed = ident
        DF.DiffLexer.get_tokens_unprocessed = line_based
        from pydiffx.integrations.pygments_lexer import DiffXLexer
        _LEXER.append(DiffXLexer)
    return _LEXER[0]


def _tokens(text):
    DiffXLexer = _lexer()
    return list(DiffXLexer().get_tokens_unprocessed(text))


def _lossless_props(text, toks):
    el = ()
    for i, t, v in toks:
        el += tuple(lift(v).el) if len(v) else ()
    t_el = lift(text).el
    if len(el) != len(t_el):
        return [('lossless', False)]
    return [('lossless', conj(el_eq(a, b) for a, b in zip(el, t_el)))]


def ob_text(ctx, prefixes, N):
    P = ctx.pick('prefix', prefixes)
    n = ctx.choose(0, N, 'n')
    tail = sym_str(ctx, 't', n) if n else ''
    text = mk_seq(tuple(map(ord, P)) + (tuple(tail.el) if n else ()), str)
    if not len(text):
        return skip('empty text')
    wit = lambda m: {'kind': 'text', 'text': model_str(m, text)}
    try:
        toks = _tokens(text)
    except PathTimeout:
        return viol('nontermination', wit(ctx.model()))
    except Exception as e:
        return viol('raised:%s' % type(e).__name__, wit(ctx.model()))
    return verdict(ctx, _lossless_props(text, toks), witness=wit,
                   sample=lambda m: dict(wit(m), tokens=[[str(t), model_str(m, v)] for i, t, v in toks][:8]))


def ob_file(ctx, N):
    """UTF-8 DiffX file from the real writer with one symbolic content section (no '#.' inside)"""
    from pydiffx.writer import DiffXWriter
    from pygments.token import Error, Name
    which = ctx.pick('section', ['.preamble', '..preamble', '...diff'])
    n = ctx.choose(1, N, 'n')
    st = SymStream()
    w = DiffXWriter(st)
    if which == '.preamble':
        t = sym_str(ctx, 'c', n, max_cp=0x7ff)
        w.write_preamble(t, indent=ctx.pick('indent', [0, 2]))
        w.new_change()
    else:
        w.write_meta({'k': [1, 'x']})
        w.new_change()
        if which == '..preamble':
            t = sym_str(ctx, 'c', n, max_cp=0x7ff)
            w.write_preamble(t)
    w.new_file()
    w.write_meta({'path': 'p'})
    if which == '...diff':
        from sx.core import sym_bytes
        d = sym_bytes(ctx, 'c', n)
        for e in d.el:
            ctx.assume(z3.ULT(e, 128))
        w.write_diff(d)
        w.new_file()
        w.write_meta({'path': 'q'})
    data = st.value()
    try:
        text = lift(data).decode('utf-8')
    except UnicodeDecodeError:
        return skip('not utf-8')
    tl = lift(text)
    # benign content: no "#." anywhere except at the real headers (which start lines)
    hdr_pos = []
    pos = 0
    concrete = [e if isinstance(e, int) else None for e in tl.el]
    for i in range(len(tl.el) - 1):
        c = tl.at((35, 46), i)
        if c is False:
            continue
        is_hdr = (i == 0 or concrete[i - 1] == 10) and concrete[i] == 35 and concrete[i + 1] == 46 and \
            all(x is not None for x in concrete[i:i + 6])
        if c is True and is_hdr:
            continue
        if c is True:
            return skip('content contains "#."')
        ctx.assume(neg(c))
    wit = lambda m: {'kind': 'file', 'text': model_str(m, text)}
    try:
        toks = _tokens(text)
    except PathTimeout:
        return viol('nontermination', wit(ctx.model()))
    except Exception as e:
        return viol('raised:%s' % type(e).__name__, wit(ctx.model()))
    props = _lossless_props(text, toks)
    props.append(('no-error-token', not any(t is Error for i, t, v in toks)))
    # header tokens == the file's headers in order
    exp = []
    raw = [e for e in tl.el]
    line_start = True
    i = 0
    plain = ''.join(chr(e) if isinstance(e, int) else '\x00' for e in raw)
    import re
    exp = [m.group(1) for m in re.finditer(r'(?m)^(#\.{0,3}(?:diffx|preamble|meta|change|file|diff):)', plain)]
    # only count headers at positions the writer wrote them (content may not fake them: excluded above for '#.';
    # a content line '#diffx:' is possible only at level 0 and is excluded by the assumption below)
    got = [v for i, t, v in toks if t is Name.Tag and isinstance(v, str) and re.fullmatch(r'#\.{0,3}[a-z]+:', v)]
    sym_tags = [v for i, t, v in toks if t is Name.Tag and not isinstance(v, str)]
    props.append(('header-tokens', got == exp and not sym_tags))
    return verdict(ctx, props, witness=wit, sample=lambda m: dict(wit(m), headers=got))


DIFF_LINES = ['--- a/f\n', '+++ b/f\n', '@@ -1,2 +1,2 @@\n', ' ctx\n', '-old line\n', '+new line', '\n', '+last\n']


def ob_diff_window(ctx, W):
    """a realistic diff section (written by the real writer) in which W symbolic ASCII characters end one of its lines:
    lossless, no Error token (the diff sub-lexer is line based), headers tagged"""
    from pydiffx.writer import DiffXWriter
    from pygments.token import Error, Name
    import re
    from sx.core import sym_bytes
    w_ = ctx.choose(1, W, 'w')
    win = sym_bytes(ctx, 'c', w_)
    for e in win.el:
        ctx.assume(z3.And(z3.UGE(e, 32), z3.ULT(e, 127)))
    at = ctx.pick('line', [3, 5])        # after ' ctx' or after '+new line'
    parts = ()
    for i, ln in enumerate(DIFF_LINES):
        if i == at:
            ln = ln.rstrip('\n')
            parts += tuple(ln.encode()) + tuple(win.el) + ((10,) if DIFF_LINES[i].endswith('\n') else ())
        else:
            parts += tuple(ln.encode())
    d = mk_seq(parts, bytes)
    st = SymStream()
    w = DiffXWriter(st)
    w.new_change()
    w.new_file()
    w.write_meta({'path': 'f'})
    w.write_diff(d)
    w.new_file()
    w.write_meta({'path': 'g'})
    text = lift(st.value()).decode('utf-8')
    tl = lift(text)
    for i in range(len(tl.el) - 1):
        c = tl.at((35, 46), i)
        if c is False or c is True:
            continue
        ctx.assume(neg(c))
    wit = lambda m: {'kind': 'file', 'text': model_str(m, text)}
    try:
        toks = _tokens(text)
    except PathTimeout:
        return viol('nontermination', wit(ctx.model()))
    except Exception as e:
        return viol('raised:%s' % type(e).__name__, wit(ctx.model()))
    props = _lossless_props(text, toks)
    props.append(('no-error-token', not any(t is Error for i, t, v in toks)))
    plain = ''.join(chr(e) if isinstance(e, int) else '\x00' for e in tl.el)
    exp = [m.group(1) for m in re.finditer(r'(?m)^(#\.{0,3}(?:diffx|preamble|meta|change|file|diff):)', plain)]
    got = [v for i, t, v in toks if t is Name.Tag and isinstance(v, str) and re.fullmatch(r'#\.{0,3}[a-z]+:', v)]
    props.append(('header-tokens', got == exp))
    return verdict(ctx, props, witness=wit, sample=lambda m: dict(wit(m), headers=got))


FILLER = 'The quick brown fox jumps over the lazy dog, twice. '


def _budget(n):
    """steps the mirrored backtracking search may take on a text of n characters: a generous quadratic (the pinned
    lexer needs about 6 n); an exponential search passes it from about 20 characters of content on"""
    return 8 * n * n + 5000


def _bt_text(which, L, tail):
    from pydiffx.writer import DiffXWriter
    st = SymStream()
    w = DiffXWriter(st)
    body = mk_seq(tuple(map(ord, FILLER[:L])) + tuple(tail.el) + (10,), str)
    if which == '.preamble':
        w.write_preamble(body, indent=0)
        w.new_change()
    else:
        w.write_meta({'k': 1})
        w.new_change()
        w.write_preamble(body, indent=0)
    w.new_file()
    w.write_meta({'path': 'p'})
    return lift(st.value()).decode('utf-8')


def ob_backtrack(ctx, Ls, T):
    """termination in practice: a writer-produced file whose preamble is L characters of prose followed by T symbolic
    characters (ASCII) -- the number of steps of the backtracking search (mirrored node for node by the regex model,
    which is validated against the native engine) must stay within a quadratic budget in the text length"""
    from sx import regex as R
    which = ctx.pick('section', ['.preamble', '..preamble'])
    L = ctx.pick('L', Ls)
    tail = sym_str(ctx, 't', T, max_cp=0x7f)
    for e in tail.el:
        ctx.assume(neg(el_eq(e, 10)))
        ctx.assume(neg(el_eq(e, 13)))
    text = _bt_text(which, L, tail)
    n = len(lift(text).el)
    wit = lambda m: {'kind': 'backtrack', 'text': model_str(m, text), 'filler': L, 'section': which,
                     'tail': model_str(m, tail), 'budget': _budget(n)}
    R.STEPS[0] = 0
    R.STEP_BUDGET[0] = _budget(n)
    try:
        toks = _tokens(text)
    except R.BacktrackBudget:
        return viol('backtracking-budget', wit(ctx.model()))
    except PathTimeout:
        return viol('nontermination', wit(ctx.model()))
    except Exception as e:
        return viol('raised:%s' % type(e).__name__, wit(ctx.model()))
    finally:
        steps = R.STEPS[0]
        R.STEP_BUDGET[0] = None
    return verdict(ctx, _lossless_props(text, toks), witness=wit,
                   sample=lambda m: dict(wit(m), steps=steps))


def obligations(tier):
    quick = tier == 'quick'
    NF = 7 if quick else 9
    NP = 4 if quick else 6
    return [
        Ob('text[symbolic]', ob_text, dict(prefixes=[''], N=NF), must_reach=['DiffXLexer'] if False else [], path_timeout=8,
           desc='DiffXLexer through the real RegexLexer driver on fully symbolic text of 0..%d code points: terminates, '
                'concatenated token values == text' % NF, bounds={'text_len': [0, NF]}),
        Ob('text[prefix+tail]', ob_text, dict(prefixes=PREFIXES, N=NP), path_timeout=8,
           desc='each rule header literal (and two-section prefixes) followed by 0..%d symbolic code points' % NP,
           bounds={'tail_len': [0, NP], 'prefixes': len(PREFIXES)}),
        Ob('writer-files', ob_file, dict(N=3 if quick else 4), must_reach=['DiffXWriter._write_section_header'], path_timeout=30,
           desc='UTF-8 files produced by the real writer with one symbolic content section without "#.": lossless, no '
                'Error token, Name.Tag header tokens == the file\'s headers in order', bounds={'content_len': [1, 3 if quick else 4]}),
        Ob('diff-lines[window]', ob_diff_window, dict(W=3 if quick else 4), must_reach=['DiffXWriter._write_section_header'],
           path_timeout=30,
           desc='a realistic unified diff written by the real writer, 1..%d symbolic printable characters ending one of its '
                'lines: lossless, no Error token, headers tagged' % (3 if quick else 4), bounds={'window': [1, 3 if quick else 4]}),
        Ob('backtracking[budget]', ob_backtrack, dict(Ls=[24] if quick else [24, 32, 48], T=3 if quick else 4), path_timeout=60,
           must_reach=['DiffXWriter._write_section_header'],
           desc='termination in practice: writer-produced file whose preamble is L characters of prose + T symbolic ASCII '
                'characters; steps of the backtracking search (counted in the node-for-node regex model) <= 8 n^2 + 5000 '
                'for text length n; a counterexample is replayed on the native engine with the prose run lengthened, '
                'under a 10 s limit', bounds={'prose_len': [24] if quick else [24, 32, 48], 'tail_len': 3 if quick else 4,
                                               'budget': '8 n^2 + 5000 model steps'}),
    ]


def validate(tier):
    """regex model on the lexer's own compiled rules + pinned runs of the instrumented driver"""
    from sx import validate as V
    from sx.selftest import regex_patterns, all_strings
    import re
    DiffXLexer = _lexer()
    DiffXLexer()          # the rule table is compiled on first instantiation
    n = 0
    pats = []
    for state, rules in DiffXLexer._tokens.items():
        for rex, action, new in rules:
            real = getattr(rex, '__self__', None)
            real = getattr(real, 'real', None)
            if real is not None:
                pats.append(real)
    corpus = ['#diffx: v=1\n', '#.meta: l=2\n{}\n#.change:\n', 'a\n', '...\n', '#..preamble:\nhi\n', '#...diff:\ndelta 1\n', '#.', '']
    corpus += all_strings('#.\na', 3, str)
    n += regex_patterns(pats, corpus)
    for t in ['#diffx: version=1.0\n#.change:\n#..file:\n#...meta: length=3\n{}\n', 'plain\n', '#...diff: x\n--- a\n+++ b\n#..file:\n', '#.',
              'no newline']:
        n += V.check_same('lexer', lambda x: [(i, str(tt), v) for i, tt, v in _tokens(x)], t)
    return n


def replay(ob, label, w):
    import re
    from pygments.token import Error, Name
    from pydiffx.integrations.pygments_lexer import DiffXLexer
    text = w['text']
    if w['kind'] == 'backtrack':
        # the same file with the prose run lengthened to 60 characters, on the native engine, in a process of its own
        import subprocess, sys, os, time
        import pydiffx
        long_text = text.replace(FILLER[:w['filler']] + w['tail'], (FILLER * 2)[:60] + w['tail'], 1)
        # (the length option of the section no longer matches; the lexer does not read it)
        code = ('import sys\nfrom pydiffx.integrations.pygments_lexer import DiffXLexer\n'
                't = sys.stdin.read()\nout = "".join(v for i, tt, v in DiffXLexer().get_tokens_unprocessed(t))\n'
                'sys.exit(0 if out == t else 3)\n')
        env = dict(os.environ, PYTHONPATH=os.path.dirname(os.path.dirname(os.path.abspath(pydiffx.__file__))))
        t0 = time.time()
        try:
            r = subprocess.run([sys.executable, '-c', code], input=long_text.encode('utf-8'), env=env, timeout=10,
                               capture_output=True)
        except subprocess.TimeoutExpired:
            return {'violated': True, 'signature': 'lexer:does-not-terminate',
                    'detail': 'native lexer did not finish within 10 s on %r (model: more than %d search steps with %d '
                              'characters of prose)' % (long_text, w['budget'], w['filler'])}
        if r.returncode == 3:
            return {'violated': True, 'signature': 'lexer:lossy', 'detail': repr(long_text)}
        return {'violated': False, 'detail': 'native lexer finished in %.2fs rc=%d' % (time.time() - t0, r.returncode)}
    try:
        toks = list(DiffXLexer().get_tokens_unprocessed(text))
    except Exception as e:
        return {'violated': True, 'signature': 'lexer:raised:%s' % type(e).__name__, 'detail': repr(text)}
    if ''.join(v for i, t, v in toks) != text:
        return {'violated': True, 'signature': 'lexer:lossy',
                'detail': 'text %r tokens %r' % (text, [(str(t), v) for i, t, v in toks])}
    if w['kind'] == 'file':
        if any(t is Error for i, t, v in toks):
            return {'violated': True, 'signature': 'lexer:error-token', 'detail': repr(text)}
        exp = [m.group(1) for m in re.finditer(r'(?m)^(#\.{0,3}(?:diffx|preamble|meta|change|file|diff):)', text)]
        got = [v for i, t, v in toks if t is Name.Tag and re.fullmatch(r'#\.{0,3}[a-z]+:', v)]
        if got != exp:
            return {'violated': True, 'signature': 'lexer:header-tokens', 'detail': '%r vs %r for %r' % (got, exp, text)}
    return {'violated': False}
