"""C08 -- reader error contract: any bytes give records or a positioned parse error."""
import z3

from sx.core import (Ctx, PathTimeout, conj, lift, mk_seq, model_bytes, sym_bytes, zint, SInt)
from sx.run import Ob, ok, skip, verdict, viol
from sx.streams import SymStream

REPLAY_TIMEOUT = 10
HANG_IS_VIOLATION = True

ASSUMPTIONS = [
    'inputs are P + S: P from a catalogue of concrete accepted prefixes reaching every reader state and every position '
    'inside a section (start of header, after "#<id>:", after "key=", inside content), S a fully symbolic tail of '
    'bounded length followed by end of file; plus fully symbolic short buffers',
    'json.loads on symbolic metadata text runs CPython\'s own pure-Python JSON decoder under the same instrumentation '
    '(sx/jsonmodel.py; the two places where it is laxer than the C decoder are patched, and it is validated against the '
    'native json module on every run of ./check selftest); should that model decline (Unmodelled), the path falls back '
    'to a small catalogue and is flagged "stubbed"',
    'termination = the path finishes within the per-path time limit (8 s; normal paths take milliseconds)',
]

MAIN = b'#diffx: version=1.0\n'
MAIN16 = b'#diffx: encoding=utf-16, version=1.0\n'
FILE = MAIN + b'#.change:\n#..file:\n#...meta: length=3\n{}\n'

PREFIXES = [
    b'', b'#', MAIN, MAIN + b'#', MAIN + b'#.meta:', MAIN + b'#.meta: ', MAIN + b'#.meta: length=',
    MAIN + b'#.meta: format=', MAIN + b'#.preamble: indent=', MAIN + b'#.preamble: line_endings=',
    MAIN + b'#.preamble: encoding=', MAIN + b'#.preamble: length=3, indent=', MAIN + b'#.preamble: length=4\n',
    MAIN + b'#.preamble: length=2, line_endings=dos\n', MAIN + b'#.preamble: indent=2, length=5\n',
    MAIN16 + b'#.preamble: length=4\n', MAIN + b'#.meta: length=3\n', MAIN + b'#.meta: length=0\n',
    b'#diffx: version=1.0\r\n', b'#diffx: version=1.0\r\n#.change:\r\n#', b'#diffx: version=',
    FILE, FILE + b'#...diff: length=', FILE + b'#...diff: length=3\n', FILE + b'#...diff: encoding=utf-16, length=4\n',
    FILE + b'#...diff: length=3, line_endings=', MAIN + b'#.change: encoding=',
    MAIN + b'#.meta: length=99999999999999999999\n', MAIN + b'#.preamble: length=3, indent=4294967296\n',
]


def _count_lines_bound(data):
    """z3 Int: number of LF bytes in data + 1"""
    tot = z3.IntVal(1)
    for e in lift(data).el:
        if isinstance(e, int):
            if e == 10:
                tot = tot + 1
        else:
            tot = tot + z3.If(e == 10, 1, 0)
    return z3.simplify(tot)


def _contract(ctx, e, data, wit):
    """conditions on a raised DiffXParseError"""
    ln = e.linenum
    props = []
    if isinstance(ln, bool) or not isinstance(ln, int):
        return [('linenum-is-int', False)]
    props.append(('linenum-within-input', z3.And(zint(ln) >= 0, zint(ln) <= _count_lines_bound(data))))
    col = e.column
    if not isinstance(ln, SInt) and (col is None or (isinstance(col, int) and not isinstance(col, SInt))):
        prefix = 'Error on line %d' % (ln + 1)
        if col is not None:
            prefix += ', column %d' % (col + 1)
        msg = e.args[0] if e.args else ''
        props.append(('message-agrees-with-attributes', lift(msg).startswith(prefix + ': ')))
    return props


def ob_reader(ctx, prefixes, N):
    from pydiffx.reader import DiffXReader
    from pydiffx.errors import DiffXParseError
    P = ctx.pick('prefix', prefixes)
    n = ctx.choose(0, N, 'n')
    tail = sym_bytes(ctx, 'b', n)
    data = mk_seq(tuple(P) + (tuple(tail.el) if n else ()), bytes)
    return _reader_outcome(ctx, data)


def _reader_outcome(ctx, data):
    from pydiffx.reader import DiffXReader
    from pydiffx.errors import DiffXParseError
    wit = lambda m: {'api': 'reader', 'data': model_bytes(m, data)}
    try:
        recs = list(DiffXReader(SymStream(data)))
    except DiffXParseError as e:
        return verdict(ctx, _contract(ctx, e, data, wit), witness=wit,
                       sample=lambda m: dict(wit(m), outcome='DiffXParseError line %s' % (e.linenum,)))
    except PathTimeout:
        return viol('nontermination', wit(ctx.model()))
    except Exception as e:
        return viol('raised:%s' % type(e).__name__, wit(ctx.model()))
    return verdict(ctx, [('records', True)], witness=wit, sample=lambda m: dict(wit(m), outcome='%d records' % len(recs)))


def ob_dom(ctx, prefixes, N):
    from pydiffx import DiffX
    from pydiffx.errors import BaseDiffXError
    P = ctx.pick('prefix', prefixes)
    n = ctx.choose(0, N, 'n')
    tail = sym_bytes(ctx, 'b', n)
    data = mk_seq(tuple(P) + (tuple(tail.el) if n else ()), bytes)
    return _dom_outcome(ctx, data)


def _dom_outcome(ctx, data):
    from pydiffx import DiffX
    from pydiffx.errors import BaseDiffXError
    wit = lambda m: {'api': 'dom', 'data': model_bytes(m, data)}
    st = SymStream(data)
    try:
        DiffX.from_stream(st)
        out = 'loaded'
    except BaseDiffXError as e:
        out = type(e).__name__
    except PathTimeout:
        return viol('nontermination', wit(ctx.model()))
    except Exception as e:
        return viol('dom-raised:%s' % type(e).__name__, wit(ctx.model()))
    return verdict(ctx, [('stream-closed', st.closed is True)], witness=wit, sample=lambda m: dict(wit(m), outcome=out))


def ob_deep(ctx, api, depths):
    """resource-shaped inputs: metadata whose JSON nests D levels deep (arrays / objects), one symbolic byte at the
    innermost position.  Whatever the JSON decoder does with that depth (it gives up with RecursionError far below
    these depths), the reader's contract is the same: records or DiffXParseError"""
    D = ctx.pick('depth', depths)
    kind = ctx.pick('nesting', ['array', 'object'])
    win = sym_bytes(ctx, 'j', 1)
    if kind == 'array':
        body = tuple(b'[' * D) + tuple(win.el) + tuple(b']' * D)
    else:
        body = tuple(b'{"a":' * D) + tuple(win.el) + tuple(b'}' * D)
    body = body + (10,)
    data = mk_seq(tuple(MAIN + b'#.meta: length=%d\n' % len(body)) + body + tuple(b'#.change:\n#..file:\n#...meta: length=3\n{}\n'), bytes)
    return _reader_outcome(ctx, data) if api == 'reader' else _dom_outcome(ctx, data)


def ob_huge_digits(ctx, api, sizes):
    """resource-shaped inputs: an option value made of D decimal digits (CPython >= 3.11 refuses int() of more than
    sys.get_int_max_str_digits() = 4300 digits with a ValueError), one digit symbolic; as a declared length with
    leading zeros (a *valid* file), as an unknown option on a container and on a content header"""
    D = ctx.pick('digits', sizes)
    where = ctx.pick('where', ['length-with-leading-zeros', 'unknown-on-container', 'unknown-on-content', 'indent'])
    x = sym_bytes(ctx, 'x', 1)
    ctx.assume(z3.And(z3.UGE(x.el[0], 48), z3.ULE(x.el[0], 57)))
    if where == 'length-with-leading-zeros':
        digits = tuple(b'0' * (D - 1)) + (51,)
        data = mk_seq(tuple(MAIN + b'#.meta: length=') + digits[:-2] + tuple(x.el) + digits[-1:] + tuple(b'\n{}\n#.change:\n#..file:\n#...meta: length=3\n{}\n'), bytes)
    elif where == 'unknown-on-container':
        digits = tuple(b'7' * (D - 1))
        data = mk_seq(tuple(MAIN + b'#.change: rev=') + digits + tuple(x.el) + tuple(b'\n#..file:\n#...meta: length=3\n{}\n'), bytes)
    elif where == 'unknown-on-content':
        digits = tuple(b'7' * (D - 1))
        data = mk_seq(tuple(MAIN + b'#.change:\n#..file:\n#...meta: length=3, rev=') + tuple(x.el) + digits + tuple(b'\n{}\n'), bytes)
    else:
        digits = tuple(b'1' * (D - 1))
        data = mk_seq(tuple(MAIN + b'#.preamble: indent=') + digits + tuple(x.el) + tuple(b', length=2\nx\n#.change:\n#..file:\n#...meta: length=3\n{}\n'), bytes)
    return _reader_outcome(ctx, data) if api == 'reader' else _dom_outcome(ctx, data)


def ob_dom_attrs(ctx, N):
    """container headers whose option *names* are attribute names of the object-model classes"""
    from pydiffx import DiffX
    from pydiffx.dom import objects as O
    from pydiffx.errors import BaseDiffXError
    import re
    cls_for = {'diffx': O.DiffX, '.change': O.DiffXChangeSection, '..file': O.DiffXFileSection}
    sid = ctx.pick('container', ['.change', '..file', 'diffx'])
    names = sorted(n for n in set(dir(cls_for[sid])) | {'options', 'subsections', '_level', 'section_id'}
                   if re.fullmatch('[A-Za-z][A-Za-z0-9_-]*', n))
    name = ctx.pick('option-name', names)
    n = ctx.choose(1, N, 'n')
    val = sym_bytes(ctx, 'v', n)
    for e in val.el:
        ctx.assume(z3.Or(z3.And(z3.UGE(e, 48), z3.ULE(e, 57)), z3.And(z3.UGE(e, 97), z3.ULE(e, 122)), e == 47, e == 46))
    hdr = {'diffx': b'#diffx: version=1.0, ', '.change': MAIN + b'#.change: ', '..file': MAIN + b'#.change:\n#..file: '}[sid]
    rest = {'diffx': b'#.change:\n#..file:\n', '.change': b'#..file:\n', '..file': b''}[sid] + b'#...meta: length=3\n{}\n'
    data = mk_seq(tuple(hdr + name.encode() + b'=') + val.el + tuple(b'\n' + rest), bytes)
    wit = lambda m: {'api': 'dom', 'data': model_bytes(m, data)}
    st = SymStream(data)
    try:
        d = DiffX.from_stream(st)
        out = 'loaded'
    except BaseDiffXError as e:
        out = type(e).__name__
    except PathTimeout:
        return viol('nontermination', wit(ctx.model()))
    except Exception as e:
        return viol('dom-raised:%s' % type(e).__name__, wit(ctx.model()))
    return verdict(ctx, [('stream-closed', st.closed is True)], witness=wit, sample=lambda m: dict(wit(m), outcome=out))


BASE_FILES = {
    'utf8': (b'#diffx: encoding=utf-8, version=1.0\n#.preamble: indent=2, length=9, line_endings=unix\n  Hi\n  x\n'
             b'#.meta: format=json, length=9\n{"a": 1}\n#.change:\n#..preamble: length=3\nyo\n#..meta: length=3\n{}\n'
             b'#..file:\n#...meta: format=json, length=14\n{"path": "p"}\n#...diff: length=12, type=text\n--- a\n+++ b\n'),
    'utf16-crlf': (b'#diffx: version=1.0\r\n#.change: encoding=utf-16\r\n#..preamble: length=8, line_endings=dos\r\n'
                   + 'x\r\n'.encode('utf-16') + b'#..file:\r\n#...meta: length=8\r\n' + '{}\n'.encode('utf-16')
                   + b'#...diff: encoding=utf-16-le, length=4\r\nd\x00\n\x00'),
}


def ob_corrupt(ctx, api, fname, W, positions=None):
    """arbitrary byte-level corruption of a well-formed file: a fully symbolic window of W bytes replaces, or is
    inserted at, every position of the file"""
    from pydiffx.reader import DiffXReader
    from pydiffx.errors import DiffXParseError, BaseDiffXError
    base = BASE_FILES[fname]
    mode = ctx.pick('mode', ['replace', 'insert'])
    ps = positions if positions is not None else list(range(len(base) + (1 if mode == 'insert' else 0)))
    p = ctx.pick('pos', ps)
    w = ctx.choose(1, W, 'w')
    win = sym_bytes(ctx, 'x', w)
    tail = base[p + w:] if mode == 'replace' else base[p:]
    data = mk_seq(tuple(base[:p]) + tuple(win.el) + tuple(tail), bytes)
    wit = lambda m: {'api': api, 'data': model_bytes(m, data)}
    if api == 'reader':
        try:
            recs = list(DiffXReader(SymStream(data)))
        except DiffXParseError as e:
            return verdict(ctx, _contract(ctx, e, data, wit), witness=wit,
                           sample=lambda m: dict(wit(m), outcome='DiffXParseError line %s' % (e.linenum,)))
        except PathTimeout:
            return viol('nontermination', wit(ctx.model()))
        except Exception as e:
            return viol('raised:%s' % type(e).__name__, wit(ctx.model()))
        return verdict(ctx, [('records', True)], witness=wit, sample=lambda m: dict(wit(m), outcome='%d records' % len(recs)))
    from pydiffx import DiffX
    st = SymStream(data)
    try:
        DiffX.from_stream(st)
        out = 'loaded'
    except BaseDiffXError as e:
        out = type(e).__name__
    except PathTimeout:
        return viol('nontermination', wit(ctx.model()))
    except Exception as e:
        return viol('dom-raised:%s' % type(e).__name__, wit(ctx.model()))
    return verdict(ctx, [('stream-closed', st.closed is True)], witness=wit, sample=lambda m: dict(wit(m), outcome=out))


DOM_PREFIXES = [
    b'', MAIN, MAIN + b'#.meta: length=3\n', MAIN + b'#.meta: length=', MAIN + b'#.preamble: length=2\n',
    MAIN + b'#.preamble: length=2, indent=', b'#diffx: encoding=utf-8, version=1.0\n#.preamble: length=2\n',
    b'#diffx: encoding=utf-8, version=1.0\n#.preamble: length=2, mimetype=', FILE + b'#...diff: length=2\n',
    FILE + b'#...diff: length=2, type=', MAIN + b'#.change: ', FILE + b'#..file: ', b'#diffx: version=1.0, ',
    b'#diffx: encoding=utf-8, version=1.0\n#.meta: length=3, format=',
]


def obligations(tier):
    quick = tier == 'quick'
    N = 4 if quick else 6
    obs = [Ob('reader[prefix+tail]', ob_reader, dict(prefixes=PREFIXES, N=N), must_reach=['DiffXReader.iter_sections'],
              path_timeout=8, max_wall=3000,
              desc='real reader on every catalogue prefix followed by 0..%d fully symbolic bytes and EOF: terminates, '
                   'completes or raises DiffXParseError with linenum inside the input and a message that agrees with '
                   'linenum/column' % N, bounds={'tail_len': [0, N], 'prefixes': len(PREFIXES)})]
    NF = 7 if quick else 10
    obs.append(Ob('reader[symbolic]', ob_reader, dict(prefixes=[b''], N=NF), must_reach=['DiffXReader._read_header'],
                  path_timeout=8, desc='real reader on fully symbolic buffers of 0..%d bytes' % NF,
                  bounds={'len': [0, NF]}))
    ND = 3 if quick else 5
    obs.append(Ob('dom[prefix+tail]', ob_dom, dict(prefixes=DOM_PREFIXES, N=ND), must_reach=['DiffXDOMReader.parse'],
                  path_timeout=8, stubs=['json.loads on symbolic text: instrumented pure-Python decoder (exact); catalogue fallback flagged'],
                  desc='DiffX.from_stream on catalogue prefixes + symbolic tail: only BaseDiffXError subclasses escape; '
                       'the stream is closed on success and on every failing path',
                  bounds={'tail_len': [0, ND], 'prefixes': len(DOM_PREFIXES)}))
    for fname in BASE_FILES:
        W = 1 if quick else 2
        step = 3 if quick else 1
        pos = list(range(0, len(BASE_FILES[fname]), step))
        obs.append(Ob('corrupt[reader,%s]' % fname, ob_corrupt, dict(api='reader', fname=fname, W=W, positions=pos),
                      must_reach=['DiffXReader.iter_sections'], path_timeout=8,
                      desc='well-formed %s file (%d bytes) with a fully symbolic window of 1..%d bytes replacing / inserted '
                           'at every %s position: reader contract' % (fname, len(BASE_FILES[fname]), W,
                                                                      'third' if quick else ''),
                      bounds={'window': [1, W], 'positions': len(pos), 'file_len': len(BASE_FILES[fname])}))
    obs.append(Ob('corrupt[dom,utf8]', ob_corrupt, dict(api='dom', fname='utf8', W=1,
                                                        positions=list(range(0, len(BASE_FILES['utf8']), 4 if quick else 1))),
                  must_reach=['DiffXDOMReader.parse'], path_timeout=8,
                  stubs=['json.loads on symbolic text: instrumented pure-Python decoder (exact); catalogue fallback flagged'],
                  desc='object-model loading of the utf8 base file with one symbolic byte replacing / inserted at positions',
                  bounds={'window': 1}))
    depths = [3, 150, 20000] if quick else [3, 40, 150, 1200, 20000, 200000]
    for api in ('reader', 'dom'):
        obs.append(Ob('deep-json[%s]' % api, ob_deep, dict(api=api, depths=depths), path_timeout=60,
                      must_reach=['DiffXReader.iter_sections'],
                      desc='metadata nested %s levels deep (arrays / objects) with one symbolic byte innermost: the contract '
                           'holds whatever the JSON decoder does at that depth' % depths, bounds={'depths': depths}))
    import sys
    lim = sys.get_int_max_str_digits() if hasattr(sys, 'get_int_max_str_digits') else 4300
    sizes = [lim, lim + 1] if quick else [lim - 1, lim, lim + 1, lim + 700, 3 * lim]
    for api in ('reader', 'dom'):
        obs.append(Ob('huge-digits[%s]' % api, ob_huge_digits, dict(api=api, sizes=sizes), path_timeout=60,
                      must_reach=['DiffXReader.iter_sections'],
                      desc='option values of %s decimal digits (around the interpreter\'s int-conversion limit) as a declared '
                           'length with leading zeros, as an unknown option on container / content headers and as indent, one '
                           'digit symbolic' % sizes, bounds={'digits': sizes}))
    obs.append(Ob('dom[attribute-named-options]', ob_dom_attrs, dict(N=1 if quick else 2),
                  must_reach=['DiffXDOMReader.parse'], path_timeout=8,
                  desc='DiffX.from_stream on files whose container headers carry an option named like any attribute '
                       'of the object-model class (reflection on the current source), symbolic value',
                  bounds={'value_len': [1, 1 if quick else 2]}))
    return obs


def validate(tier):
    import io
    from pydiffx.reader import DiffXReader
    from pydiffx.errors import DiffXParseError
    from sx import validate as V
    n = 0

    def run(d):
        try:
            return ['ok', [(r['section'], r['options']) for r in DiffXReader(SymStream(d))]]
        except DiffXParseError as e:
            return ['perr', e.linenum, e.column]
    for p in PREFIXES:
        for tail in (b'', b'\n', b'x=1\n', b'4\nab\n\n', b'json, length=3\n{}\n'):
            n += V.check_same('reader', run, p + tail)
    return n


def replay(ob, label, w):
    import io
    from pydiffx.errors import BaseDiffXError, DiffXParseError
    data = w['data']
    if w['api'] == 'dom':
        from pydiffx import DiffX
        st = io.BytesIO(data)
        try:
            DiffX.from_stream(st)
        except BaseDiffXError:
            pass
        except Exception as e:
            return {'violated': True, 'signature': 'dom-load:raised:%s' % type(e).__name__,
                    'detail': 'DiffX.from_stream(%r) -> %s: %s' % (data, type(e).__name__, e)}
        if not st.closed:
            return {'violated': True, 'signature': 'dom-load:stream-left-open', 'detail': repr(data)}
        return {'violated': False}
    from pydiffx.reader import DiffXReader
    try:
        list(DiffXReader(io.BytesIO(data)))
    except DiffXParseError as e:
        nlines = data.count(b'\n') + 1
        if not isinstance(e.linenum, int) or not 0 <= e.linenum <= nlines:
            return {'violated': True, 'signature': 'reader:linenum-outside-input',
                    'detail': 'linenum %r for %r (%d lines)' % (e.linenum, data, nlines)}
        prefix = 'Error on line %d' % (e.linenum + 1) + (', column %d' % (e.column + 1) if e.column is not None else '')
        if not str(e).startswith(prefix + ': '):
            return {'violated': True, 'signature': 'reader:message-disagrees', 'detail': '%r vs %r' % (str(e), prefix)}
    except Exception as e:
        return {'violated': True, 'signature': 'reader:raised:%s' % type(e).__name__,
                'detail': 'DiffXReader(%r) -> %s: %s' % (data, type(e).__name__, e)}
    return {'violated': False}
