"""C16 -- split_lines is lossless and consistent between its two modes."""
import z3

from sx import validate as V
from sx.core import conj, disj, ite, lift, mk_seq, model_bytes, neg, sym_bytes, zbool
from sx.run import Ob, verdict, viol

ASSUMPTIONS = [
    'data length bounded (see bounds); newline drawn from the 10 sequences the library can produce for '
    'LF/CRLF in ascii/utf-8, utf-16-le/be, utf-32-le/be',
    'bytes.split / endswith / slicing / %-formatting modelled element-wise (validated concolically each run)',
]

NEWLINES = [
    b'\n', b'\r\n',
    '\n'.encode('utf-16-le'), '\r\n'.encode('utf-16-le'),
    '\n'.encode('utf-16-be'), '\r\n'.encode('utf-16-be'),
    '\n'.encode('utf-32-le'), '\r\n'.encode('utf-32-le'),
    '\n'.encode('utf-32-be'), '\r\n'.encode('utf-32-be'),
]


def _split_lines():
    from pydiffx.utils.text import split_lines
    return split_lines


def ob_split(ctx, nl, N):
    split_lines = _split_lines()
    n = ctx.choose(1, N, 'len')
    data = sym_bytes(ctx, 'd', n)
    try:
        lines = split_lines(data, nl, keep_ends=True)
        plain = split_lines(data, nl, keep_ends=False)
    except Exception as e:
        m = ctx.model()
        return viol('raised:%s' % type(e).__name__, {'data': model_bytes(m, data), 'newline': nl})
    props = []
    if not isinstance(lines, list) or not isinstance(plain, list):
        return viol('result-type', {'data': model_bytes(ctx.model(), data), 'newline': nl})
    # (1) lossless
    joined = ()
    for l in lines:
        joined += lift(l).el
    props.append(('concat', lift(mk_seq(joined, bytes)).eq_cond(data) if len(joined) == n else False))
    # (2) terminal newline, and nowhere else
    tnl = tuple(nl)
    for i, l in enumerate(lines):
        l = lift(l)
        last = i == len(lines) - 1
        ends = l.at(tnl, len(l.el) - len(nl))
        inner = disj(l.at(tnl, k) for k in range(0, len(l.el) - len(nl)))
        if not last:
            props.append(('line-ends-with-newline', ends))
        props.append(('no-inner-newline', neg(inner)))
        if last:
            props.append(('last-line-nonempty', len(l.el) > 0))
    # (3) count formula, with an independent left-to-right occurrence count
    d = lift(data)
    cnt = 0
    p = 0
    while True:
        i = d.find(nl, p)
        if i < 0:
            break
        cnt += 1
        p = i + len(nl)
    ends = bool(d.endswith(nl))
    props.append(('count', len(lines) == cnt + (0 if ends else 1)))
    # (4) relation between the two modes
    props.append(('modes-same-count', len(plain) == len(lines)))
    if len(plain) == len(lines):
        for pl, l in zip(plain, lines):
            l = lift(l)
            pl = lift(pl)
            e = l.at(tnl, len(l.el) - len(nl))
            a = lift(mk_seq(pl.el + tnl, bytes)).eq_cond(l)
            b = pl.eq_cond(l)
            props.append(('modes-relation', ite(e, zbool(a), zbool(b)) if not isinstance(e, bool) else (a if e else b)))
    return verdict(ctx, props,
                   witness=lambda m: {'data': model_bytes(m, data), 'newline': nl},
                   sample=lambda m: {'data': model_bytes(m, data), 'newline': nl, 'lines': len(lines)})


def obligations(tier):
    N = 8 if tier == 'quick' else 13
    obs = []
    for nl in NEWLINES:
        obs.append(Ob('split_lines[%s]' % nl.hex(), ob_split, dict(nl=nl, N=N),
                      must_reach=['utils.text:split_lines'],
                      desc='real split_lines, both modes, all data of 1..%d symbolic bytes, newline %r' % (N, nl),
                      bounds={'data_len': [1, N], 'newline': nl.hex()}))
    return obs


def validate(tier):
    split_lines = _split_lines()
    n = 0
    corpus = [b'a', b'\n', b'\r\n', b'a\nb', b'a\r\nb\r\n', b'\n\n', b'\r\r\n\n', b'ab\n\x00', b'\x00\n\x00\n',
              b'\r\x00\n\x00x\x00', b'\n\x00\x00\x00\n\x00\x00\x00', b'abc', b'\n\r']
    for data in corpus:
        for nl in NEWLINES:
            for ke in (False, True):
                n += V.check_same('split_lines', split_lines, data, nl, keep_ends=ke)
    return n


def check_concrete(data, nl, split_lines):
    """the property, evaluated concretely with an independent oracle"""
    try:
        lines = split_lines(data, nl, keep_ends=True)
        plain = split_lines(data, nl, keep_ends=False)
    except Exception as e:
        return 'raised %s' % type(e).__name__
    if b''.join(lines) != data:
        return 'concat'
    # independent scan
    exp = []
    p = 0
    while True:
        i = data.find(nl, p)
        if i < 0:
            break
        exp.append(data[p:i + len(nl)])
        p = i + len(nl)
    if p < len(data):
        exp.append(data[p:])
    if lines != exp:
        return 'lines %r != %r' % (lines, exp)
    exp_plain = [l[:-len(nl)] if l.endswith(nl) else l for l in exp]
    if plain != exp_plain:
        return 'plain %r != %r' % (plain, exp_plain)
    return None


def replay(ob, label, w):
    from pydiffx.utils.text import split_lines
    bad = check_concrete(w['data'], w['newline'], split_lines)
    return {'violated': bad is not None, 'signature': 'split_lines:' + (bad or '').split(' ')[0], 'detail': bad}
