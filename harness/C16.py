"""C16 -- split_lines is lossless and consistent between its two modes."""
import z3

from sx import validate as V
from sx.core import conj, disj, ite, lift, mk_seq, model_bytes, neg, sym_bytes, zbool
from sx.run import Ob, verdict, viol

ASSUMPTIONS = [
    'data length bounded (see bounds); newline drawn from every distinct byte sequence LF / CRLF encode to in any text '
    'codec of the platform (ascii-compatible, utf-16/32 le/be, and the EBCDIC code pages where LF is 0x25 = "%")',
    'bytes.split / endswith / slicing / %-formatting modelled element-wise (validated concolically each run)',
]

NEWLINES = [
    b'\n', b'\r\n',
    '\n'.encode('utf-16-le'), '\r\n'.encode('utf-16-le'),
    '\n'.encode('utf-16-be'), '\r\n'.encode('utf-16-be'),
    '\n'.encode('utf-32-le'), '\r\n'.encode('utf-32-le'),
    '\n'.encode('utf-32-be'), '\r\n'.encode('utf-32-be'),
]


def _platform_newlines():
    """every distinct byte sequence that LF / CRLF encode to (BOM removed) in any text codec of the platform: beyond the
    ten above these are the EBCDIC code pages, where LF is 0x25 -- the ASCII percent sign"""
    import codecs
    import encodings.aliases
    out = []
    for n in sorted(set(encodings.aliases.aliases.values())):
        try:
            info = codecs.lookup(n)
            if not getattr(info, '_is_text_encoding', True):
                continue
            for t in ('\n', '\r\n'):
                b = t.encode(n)
                for bom in (codecs.BOM_UTF32_LE, codecs.BOM_UTF32_BE, codecs.BOM_UTF8, codecs.BOM_UTF16_LE, codecs.BOM_UTF16_BE):
                    if b.startswith(bom) and len(b) > len(bom):
                        b = b[len(bom):]
                        break
                if b not in out and b not in NEWLINES:
                    out.append(b)
        except Exception:
            continue
    return out


NEWLINES = NEWLINES + _platform_newlines()


def _split_lines():
    from pydiffx.utils.text import split_lines
    return split_lines


def ob_split(ctx, nl, N):
    split_lines = _split_lines()
    n = ctx.choose(1, N, 'len')
    data = sym_bytes(ctx, 'd', n)
    try:
        lines = split_lines(data, nl, keep_ends=True)
        plain = split_lines(data, nl, keep_ends=False)
    except Exception as e:
        m = ctx.model()
        return viol('raised:%s' % type(e).__name__, {'data': model_bytes(m, data), 'newline': nl})
    props = []
    if not isinstance(lines, list) or not isinstance(plain, list):
        return viol('result-type', {'data': model_bytes(ctx.model(), data), 'newline': nl})
    # (1) lossless
    joined = ()
    for l in lines:
        joined += lift(l).el
    props.append(('concat', lift(mk_seq(joined, bytes)).eq_cond(data) if len(joined) == n else False))
    # (2) terminal newline, and nowhere else
    tnl = tuple(nl)
    for i, l in enumerate(lines):
        l = lift(l)
        last = i == len(lines) - 1
        ends = l.at(tnl, len(l.el) - len(nl))
        inner = disj(l.at(tnl, k) for k in range(0, len(l.el) - len(nl)))
        if not last:
            props.append(('line-ends-with-newline', ends))
        props.append(('no-inner-newline', neg(inner)))
        if last:
            props.append(('last-line-nonempty', len(l.el) > 0))
    # (3) count formula, with an independent left-to-right occurrence count
    d = lift(data)
    cnt = 0
    p = 0
    while True:
        i = d.find(nl, p)
        if i < 0:
            break
        cnt += 1
        p = i + len(nl)
    ends = bool(d.endswith(nl))
    props.append(('count', len(lines) == cnt + (0 if ends else 1)))
    # (4) relation between the two modes
    props.append(('modes-same-count', len(plain) == len(lines)))
    if len(plain) == len(lines):
        for pl, l in zip(plain, lines):
            l = lift(l)
            pl = lift(pl)
            e = l.at(tnl, len(l.el) - len(nl))
            a = lift(mk_seq(pl.el + tnl, bytes)).eq_cond(l)
            b = pl.eq_cond(l)
            props.append(('modes-relation', ite(e, zbool(a), zbool(b)) if not isinstance(e, bool) else (a if e else b)))
    return verdict(ctx, props,
                   witness=lambda m: {'data': model_bytes(m, data), 'newline': nl},
                   sample=lambda m: {'data': model_bytes(m, data), 'newline': nl, 'lines': len(lines)})


FILLER = b'ab\n c\r\nd\x00\n\x00e\r\x00\n\x00\x00\x00\n'


def _fill(n, phase=0):
    reps = (n + phase) // len(FILLER) + 2
    return (FILLER * reps)[phase:phase + n]


def ob_window(ctx, nl, offsets, W):
    """long inputs: concrete filler of k bytes, a fully symbolic window, concrete filler of m bytes -- for
    implementations whose behaviour could depend on the length or on block boundaries"""
    split_lines = _split_lines()
    k = ctx.pick('prefix_len', offsets)
    m = ctx.pick('suffix_len', [0, 1, 67])
    w = ctx.choose(1, W, 'window')
    win = sym_bytes(ctx, 'w', w)
    data = mk_seq(tuple(_fill(k)) + tuple(win.el) + tuple(_fill(m, 3)), bytes)
    n = len(lift(data).el)
    try:
        lines = split_lines(data, nl, keep_ends=True)
        plain = split_lines(data, nl, keep_ends=False)
    except Exception as e:
        return viol('raised:%s' % type(e).__name__, {'data': model_bytes(ctx.model(), data), 'newline': nl})
    joined = ()
    for l in lines:
        joined += lift(l).el
    props = [('concat', lift(mk_seq(joined, bytes)).eq_cond(data) if len(joined) == n else False)]
    # independent left-to-right scan
    d = lift(data)
    exp = []
    p = 0
    while True:
        i = d.find(nl, p)
        if i < 0:
            break
        exp.append(mk_seq(d.el[p:i + len(nl)], bytes))
        p = i + len(nl)
    if p < n:
        exp.append(mk_seq(d.el[p:], bytes))
    props.append(('count', len(lines) == len(exp)))
    if len(lines) == len(exp):
        props.append(('lines', conj(lift(a).eq_cond(b) if len(a) == len(b) else False for a, b in zip(lines, exp))))
    props.append(('modes-same-count', len(plain) == len(exp)))
    if len(plain) == len(exp):
        tnl = tuple(nl)
        for pl, l in zip(plain, exp):
            l = lift(l)
            e = l.at(tnl, len(l.el) - len(nl))
            want = mk_seq(l.el[:len(l.el) - len(nl)], bytes) if e is True else (l if e is False else None)
            if want is None:
                a = lift(mk_seq(lift(pl).el + tnl, bytes)).eq_cond(l)
                b = lift(pl).eq_cond(l)
                props.append(('modes-relation', ite(e, zbool(a), zbool(b))))
            else:
                props.append(('modes-relation', lift(pl).eq_cond(want) if len(pl) == len(want) else False))
    return verdict(ctx, props, witness=lambda m_: {'data': model_bytes(m_, data), 'newline': nl},
                   sample=lambda m_: {'len': n, 'prefix_len': k, 'window': model_bytes(m_, win), 'newline': nl})


def obligations(tier):
    N = 8 if tier == 'quick' else 13
    obs = []
    for nl in NEWLINES:
        obs.append(Ob('split_lines[%s]' % nl.hex(), ob_split, dict(nl=nl, N=N),
                      must_reach=['utils.text:split_lines'],
                      desc='real split_lines, both modes, all data of 1..%d symbolic bytes, newline %r' % (N, nl),
                      bounds={'data_len': [1, N], 'newline': nl.hex()}))
    quick = tier == 'quick'
    base = list(range(0, 24)) if quick else list(range(0, 100))
    marks = [64, 96, 128, 256, 512, 1024, 2048, 4096] if quick else \
        [64, 96, 128, 192, 256, 384, 512, 1000, 1024, 2048, 4096, 8192, 16384, 65536]
    offsets = sorted(set(base + [x + dlt for x in marks for dlt in (-3, -2, -1, 0, 1)]))
    for nl in (NEWLINES if not quick else [NEWLINES[0], NEWLINES[1], NEWLINES[3]]):
        obs.append(Ob('window[%s]' % nl.hex(), ob_window, dict(nl=nl, offsets=offsets, W=2 if quick else 3),
                      must_reach=['utils.text:split_lines'],
                      desc='long inputs: concrete filler of k bytes (k over %d offsets up to %d, around block-size marks), '
                           'a symbolic window of 1..%d bytes, filler of 0/1/67 bytes; both modes against an independent scan'
                           % (len(offsets), offsets[-1], 2 if quick else 3),
                      bounds={'prefix_len': [offsets[0], offsets[-1]], 'offsets': len(offsets), 'window': [1, 2 if quick else 3]}))
    return obs


def validate(tier):
    split_lines = _split_lines()
    n = 0
    corpus = [b'a', b'\n', b'\r\n', b'a\nb', b'a\r\nb\r\n', b'\n\n', b'\r\r\n\n', b'ab\n\x00', b'\x00\n\x00\n',
              b'\r\x00\n\x00x\x00', b'\n\x00\x00\x00\n\x00\x00\x00', b'abc', b'\n\r']
    for data in corpus:
        for nl in NEWLINES:
            for ke in (False, True):
                n += V.check_same('split_lines', split_lines, data, nl, keep_ends=ke)
    return n


def check_concrete(data, nl, split_lines):
    """the property, evaluated concretely with an independent oracle"""
    try:
        lines = split_lines(data, nl, keep_ends=True)
        plain = split_lines(data, nl, keep_ends=False)
    except Exception as e:
        return 'raised %s' % type(e).__name__
    if b''.join(lines) != data:
        return 'concat'
    # independent scan
    exp = []
    p = 0
    while True:
        i = data.find(nl, p)
        if i < 0:
            break
        exp.append(data[p:i + len(nl)])
        p = i + len(nl)
    if p < len(data):
        exp.append(data[p:])
    if lines != exp:
        return 'lines %r != %r' % (lines, exp)
    exp_plain = [l[:-len(nl)] if l.endswith(nl) else l for l in exp]
    if plain != exp_plain:
        return 'plain %r != %r' % (plain, exp_plain)
    return None


def replay(ob, label, w):
    from pydiffx.utils.text import split_lines
    bad = check_concrete(w['data'], w['newline'], split_lines)
    return {'violated': bad is not None, 'signature': 'split_lines:' + (bad or '').split(' ')[0], 'detail': bad}
