"""C09 -- the writer enforces section order; rejected calls are atomic; output is append-only."""
import copy

import z3

from sx import instrument
from sx.core import (Ctx, PathTimeout, SSeq, conj, lift, mk_seq, model_bytes, model_str, rng, sym_bytes, sym_str)
from sx.run import Ob, ok, skip, verdict, viol
from sx.streams import SymStream

ASSUMPTIONS = [
    'inductive step: one call from an arbitrary valid writer state (section written last in the 9 ids, stack of '
    'matching depth with encodings from {utf-8, ascii, utf-16}); the post-state of an accepted call satisfies the same '
    'invariant, so every call history is covered (if the internals are renamed the step is skipped and only the '
    'bounded public-API obligation remains)',
    'argument menus: valid values, wrong content types, empty content, invalid line_endings / mimetype / diff_type / '
    'meta_format, indent of wrong type, unknown codec, codec names with symbolic characters (incl. non-ASCII), text with '
    'symbolic (possibly unencodable) code points, unserialisable metadata',
    'OS-level failures of fp.write are outside the claim',
]

IDS = ['diffx', '.preamble', '.meta', '.change', '..preamble', '..meta', '..file', '...meta', '...diff']
LEVEL = {'diffx': 0, '.preamble': 0, '.meta': 0, '.change': 1, '..preamble': 1, '..meta': 1, '..file': 2,
         '...meta': 2, '...diff': 2}
ENCS = ['utf-8', 'ascii', 'utf-16']


def setup():
    instrument.install('ref')


class Unserialisable(object):
    pass


def _section_of(call, s):
    """the section id a call would write from state s"""
    name = call.split(':')[0]
    depth = LEVEL[s]
    if name == 'new_change':
        return '.change'
    if name == 'new_file':
        return '..file'
    kind = {'write_preamble': 'preamble', 'write_meta': 'meta', 'write_diff': 'diff'}[name]
    return '.' * (depth + 1) + kind


def _menu(ctx):
    """(call label, function name, args, kwargs, valid-arguments?)"""
    t1 = sym_str(ctx, 't', 1)
    name1 = sym_str(ctx, 'enc', ctx.choose(1, 2, 'enc.len'), max_cp=0x2ff)
    d1 = sym_bytes(ctx, 'd', 1)
    return [
        ('new_change', 'new_change', (), {}, True),
        ('new_change:enc', 'new_change', (), {'encoding': 'utf-16'}, True),
        ('new_change:symbolic-encoding-name', 'new_change', (), {'encoding': name1}, None),
        ('new_file', 'new_file', (), {}, True),
        ('new_file:symbolic-encoding-name', 'new_file', (), {'encoding': name1}, None),
        ('write_preamble', 'write_preamble', (t1,), {}, None),
        ('write_preamble:ascii', 'write_preamble', (t1,), {'encoding': 'ascii', 'indent': 2}, None),
        ('write_preamble:bytes', 'write_preamble', (b'x',), {}, False),
        ('write_preamble:empty', 'write_preamble', ('',), {}, False),
        ('write_preamble:bad-line_endings', 'write_preamble', ('x',), {'line_endings': 'mac'}, False),
        ('write_preamble:bad-mimetype', 'write_preamble', ('x',), {'mimetype': 'text/html'}, False),
        ('write_preamble:indent-str', 'write_preamble', ('x',), {'indent': '2'}, False),
        ('write_preamble:empty-mimetype', 'write_preamble', ('x',), {'mimetype': ''}, None),
        ('write_preamble:empty-line_endings', 'write_preamble', ('x',), {'line_endings': ''}, None),
        ('write_meta:empty-format', 'write_meta', ({'a': 1},), {'meta_format': ''}, None),
        ('write_meta:none-format', 'write_meta', ({'a': 1},), {'meta_format': None}, None),
        ('write_diff:empty-type', 'write_diff', (b'x',), {'diff_type': ''}, None),
        ('write_diff:empty-line_endings', 'write_diff', (b'x',), {'line_endings': ''}, None),
        ('write_preamble:unknown-codec', 'write_preamble', ('x',), {'encoding': 'no-such-codec'}, False),
        ('write_preamble:symbolic-encoding-name', 'write_preamble', ('x',), {'encoding': name1}, None),
        ('write_meta', 'write_meta', ({'a': 1},), {}, True),
        ('write_meta:list', 'write_meta', ([1],), {}, False),
        ('write_meta:empty', 'write_meta', ({},), {}, False),
        ('write_meta:bad-format', 'write_meta', ({'a': 1},), {'meta_format': 'yaml'}, False),
        ('write_meta:unserialisable', 'write_meta', ({'a': Unserialisable()},), {}, False),
        ('write_meta:unknown-codec', 'write_meta', ({'a': 1},), {'encoding': 'no-such-codec'}, False),
        ('write_diff', 'write_diff', (d1,), {}, True),
        ('write_diff:str', 'write_diff', ('x',), {}, False),
        ('write_diff:empty', 'write_diff', (b'',), {}, False),
        ('write_diff:bad-type', 'write_diff', (b'x',), {'diff_type': 'patch'}, False),
        ('write_diff:bad-line_endings', 'write_diff', (b'x',), {'line_endings': 'mac'}, False),
        ('write_diff:unknown-codec', 'write_diff', (b'x',), {'encoding': 'no-such-codec', 'line_endings': 'unix'}, False),
    ]


CHOICES = {'mimetype': (b'text/plain', b'text/markdown'), 'line_endings': (b'unix', b'dos'), 'type': (b'text', b'binary'),
           'format': (b'json',), 'version': (b'1.0',)}


def header_conformant(appended):
    """what an *accepted* call wrote starts with one header line of the specification's grammar whose options with a
    closed set of values carry one of them (an accepted call with a value that cannot be represented -- e.g. an empty
    string -- shows here, whatever the implementation calls 'valid').  Returns a condition (bool or z3)."""
    import re
    from harness.C11 import SPEC_LINE
    from sx.regex import nfa_formula
    a = lift(appended)
    i = a.find(b'\n')
    if i < 0:
        return False
    line = a.el[:i]
    if all(isinstance(e, int) for e in line):
        b = bytes(line)
        if re.fullmatch(SPEC_LINE, b) is None:
            return False
        for key, allowed in CHOICES.items():
            for m in re.finditer(rb'(?:: |, )' + key.encode() + rb'=([^,]*)', b):
                if m.group(1) not in allowed:
                    return False
        return True
    return nfa_formula(SPEC_LINE, line)


def _snapshot(w):
    return ([dict(f) for f in w._stack], w._prev_section)


def ob_step(ctx):
    import ref.spec as S
    from pydiffx.writer import DiffXWriter
    s = ctx.pick('prev', IDS)
    chain = [ctx.pick('main.enc', ENCS)]
    for i in range(1, LEVEL[s] + 1):
        own = ctx.pick('anc%d' % i, ['inherit', 'utf-16'])
        chain.append(chain[-1] if own == 'inherit' else own)
    menu = _menu(ctx)
    label, fn, a, k, valid_args = menu[ctx.choose(0, len(menu) - 1, 'call')]
    ctx.choices[-1] = ('call', label)
    w = DiffXWriter.__new__(DiffXWriter)
    st = SymStream()
    st.write(b'PREVIOUS OUTPUT\n')
    w.fp = st
    w._stack = [{'encoding': chain[0]}] + [{'encoding': e} for e in chain]
    w._prev_section = s
    before = _snapshot(w)
    log_before = len(st.log)
    value_before = st.value()
    t = _section_of(label, s)
    order_ok = t in S.REF_HIER[s]

    def wit(m):
        def cv(x):
            if isinstance(x, SSeq):
                return model_str(m, x) if x.kind is str else model_bytes(m, x)
            if isinstance(x, dict):
                return {kk: ('<unserialisable>' if isinstance(vv, Unserialisable) else cv(vv)) for kk, vv in x.items()}
            return x
        return {'prev': s, 'chain': chain, 'call': label, 'fn': fn, 'args': [cv(x) for x in a],
                'kwargs': {kk: cv(vv) for kk, vv in k.items()}}
    try:
        getattr(w, fn)(*a, **k)
        raised = None
    except PathTimeout:
        raise
    except Exception as e:
        raised = e
    props = []
    if raised is None:
        props.append(('accepted-although-order-forbids', order_ok))
        if valid_args is False:
            props.append(('accepted-invalid-arguments', False))
        ops = st.log[log_before:]
        props.append(('append-only', all(op[0] == 'write' and op[3] for op in ops) and len(ops) > 0))
        out = lift(st.value())
        props.append(('previous-output-untouched', mk_seq(out.el[:len(value_before)], bytes) == value_before))
        if 'symbolic-encoding-name' not in label:
            # (which codec-name spellings can stand in a header is C15's subject; here: the closed-choice options)
            props.append(('accepted-call-wrote-malformed-header', header_conformant(mk_seq(out.el[len(value_before):], bytes))))
        # Inv_w afterwards
        depth = {'diffx': 1, '.change': 2, '..file': 3}.get(t, LEVEL[s] + 1)
        props.append(('Inv_w:stack-depth', len(w._stack) == depth + 1))
        props.append(('Inv_w:prev_section', w._prev_section == t))
    else:
        if order_ok and valid_args is True:
            props.append(('valid-call-rejected:%s' % type(raised).__name__, False))
        props.append(('rejected-call-wrote-bytes', len(st.log) == log_before))
        props.append(('rejected-call-changed-state', _snapshot(w) == before))
    return verdict(ctx, props, witness=lambda m: dict(wit(m), raised=type(raised).__name__ if raised else None),
                   sample=lambda m: dict(wit(m), outcome=type(raised).__name__ if raised else 'accepted'))


def ob_init(ctx):
    """the constructor as a call: rejected constructions write nothing"""
    from pydiffx.writer import DiffXWriter
    mode = ctx.pick('mode', ['ok', 'bad-version', 'empty-version', 'none-version', 'symbolic-encoding-name'])
    st = SymStream()
    kw = {}
    name = None
    if mode == 'bad-version':
        kw['version'] = '2.0'
    elif mode == 'empty-version':
        kw['version'] = ''
    elif mode == 'none-version':
        kw['version'] = None
    elif mode == 'symbolic-encoding-name':
        name = sym_str(ctx, 'enc', ctx.choose(1, 2, 'enc.len'), max_cp=0x2ff)
        kw['encoding'] = name
    wit = lambda m: {'call': 'init', 'kwargs': {k: (model_str(m, v) if isinstance(v, SSeq) else v) for k, v in kw.items()}}
    try:
        DiffXWriter(st, **kw)
        raised = None
    except Exception as e:
        raised = e
    if raised is None:
        return verdict(ctx, [('accepted-call-wrote-malformed-header', True if mode == 'symbolic-encoding-name' else header_conformant(st.value())),
                             ('append-only', st.append_only())],
                       witness=wit, sample=lambda m: dict(wit(m), outcome='accepted'))
    return verdict(ctx, [('rejected-call-wrote-bytes', len(st.log) == 0)], witness=wit,
                   sample=lambda m: dict(wit(m), outcome=type(raised).__name__))


def ob_public(ctx, K):
    """bounded histories through the public API only: accepted <=> REF_HIER; rejected calls leave the output unchanged
    and a following valid call behaves as if the rejected one had not been made"""
    import ref.spec as S
    from pydiffx.writer import DiffXWriter
    st = SymStream()
    w = DiffXWriter(st)
    prev = 'diffx'
    depth = 0
    calls = ['new_change', 'new_file', 'write_preamble', 'write_meta', 'write_diff']
    args = {'new_change': (), 'new_file': (), 'write_preamble': ('p',), 'write_meta': ({'a': 1},), 'write_diff': (b'd',)}
    hist = []
    for i in range(K):
        c = ctx.pick('call%d' % i, calls)
        t = _section_of(c, prev)
        before = st.value()
        try:
            getattr(w, c)(*args[c])
            acc = True
        except Exception as e:
            acc = False
        hist.append((c, acc))
        allowed = t in S.REF_HIER[prev]
        if acc != allowed:
            return viol('accepted<=>allowed', {'history': hist, 'call': 'public'})
        if not acc and st.value() != before:
            return viol('rejected-call-wrote-bytes', {'history': hist, 'call': 'public'})
        if acc:
            if not (len(st.value()) > len(before) and st.value()[:len(before)] == before):
                return viol('append-only', {'history': hist, 'call': 'public'})
            prev = t
    return verdict(ctx, [('history', True)], witness=lambda m: {'history': hist, 'call': 'public'},
                   sample=lambda m: {'history': hist})


VALID_CALLS = [('new_change', 'new_change', (), {}), ('new_file', 'new_file', (), {}),
               ('write_preamble', 'write_preamble', ('p',), {}), ('write_meta', 'write_meta', ({'a': 1},), {}),
               ('write_diff', 'write_diff', (b'd',), {}),
               ('new_change:enc', 'new_change', (), {'encoding': 'utf-16'}),
               ('new_file:enc', 'new_file', (), {'encoding': 'latin-1'})]


def _concrete(m, x):
    if isinstance(x, SSeq):
        return model_str(m, x) if x.kind is str else model_bytes(m, x)
    if isinstance(x, dict):
        return {kk: ('<unserialisable>' if isinstance(vv, Unserialisable) else _concrete(m, vv)) for kk, vv in x.items()}
    if isinstance(x, (tuple, list)):
        return [_concrete(m, y) for y in x]
    return x


def ob_twin(ctx, K1, K2):
    """public API only, no internals: K1 calls from the valid-argument menu (some rejected by order), one call from the
    full menu (invalid arguments, symbolic text / codec-name characters), K2 more calls; every rejected call leaves the
    stream untouched, acceptance follows the hierarchy, and the final output equals that of a *twin* writer that was
    only ever given the accepted calls (so a rejected call cannot have changed any hidden state that matters)"""
    import ref.spec as S
    from pydiffx.writer import DiffXWriter
    st = SymStream()
    w = DiffXWriter(st)
    prev = 'diffx'
    menu = _menu(ctx)
    seq = []
    if K1 == 'states':
        # a canonical history reaching each of the nine writer states, containers with or without an own encoding
        V = {c[0]: c for c in VALID_CALLS}
        reach = {'diffx': [], '.preamble': ['write_preamble'], '.meta': ['write_meta'], '.change': ['new_change'],
                 '..preamble': ['new_change', 'write_preamble'], '..meta': ['new_change', 'write_meta'],
                 '..file': ['new_change', 'new_file'], '...meta': ['new_change', 'new_file', 'write_meta'],
                 '...diff': ['new_change', 'new_file', 'write_meta', 'write_diff']}
        state = ctx.pick('state', IDS)
        variant = ctx.pick('enc-variant', ['plain', 'change-enc', 'file-enc'])
        for c in reach[state]:
            if c == 'new_change' and variant == 'change-enc':
                c = 'new_change:enc'
            if c == 'new_file' and variant == 'file-enc':
                c = 'new_file:enc'
            seq.append(V[c] + (True,))
    else:
        for i in range(K1):
            seq.append(ctx.pick('call%d' % i, VALID_CALLS) + (True,))
    lab = ctx.pick('mid', [mm[0] for mm in menu])
    seq.append([mm for mm in menu if mm[0] == lab][0])
    for i in range(K2):
        seq.append(ctx.pick('after%d' % i, VALID_CALLS[:5]) + (True,))
    hist = []
    accepted = []
    header_conds = []

    def wit(m):
        return {'call': 'twin', 'history': [[lb, fn, _concrete(m, a), _concrete(m, k), va] for lb, fn, a, k, va in seq],
                'outcomes': list(hist)}
    tainted = False      # an accepted container with an unchecked (symbolic) codec name makes later validity unknown
    for lb, fn, a, k, valid_args in seq:
        if tainted and valid_args is True:
            valid_args = None
        t = _section_of(lb, prev)
        n_log = len(st.log)
        len_before = len(st.value())
        try:
            getattr(w, fn)(*a, **k)
            acc = True
        except PathTimeout:
            raise
        except Exception as e:
            acc = False
        hist.append(acc)
        allowed = t in S.REF_HIER[prev]
        if acc and not allowed:
            return viol('accepted-although-order-forbids', wit(ctx.model()))
        if acc and valid_args is False:
            return viol('accepted-invalid-arguments', wit(ctx.model()))
        if not acc and allowed and valid_args is True:
            return viol('valid-call-rejected', wit(ctx.model()))
        if not acc and len(st.log) != n_log:
            return viol('rejected-call-wrote-bytes', wit(ctx.model()))
        if acc:
            if not all(op[0] == 'write' and op[3] for op in st.log[n_log:]):
                return viol('append-only', wit(ctx.model()))
            hc = True if ('symbolic-encoding-name' in lb or tainted) else header_conformant(mk_seq(lift(st.value()).el[len_before:], bytes))
            if hc is False:
                return viol('accepted-call-wrote-malformed-header', wit(ctx.model()))
            if hc is not True:
                header_conds.append(hc)
            accepted.append((fn, a, k))
            prev = t
            if 'symbolic-encoding-name' in lb:
                tainted = True
    st2 = SymStream()
    w2 = DiffXWriter(st2)
    try:
        for fn, a, k in accepted:
            getattr(w2, fn)(*a, **k)
    except PathTimeout:
        raise
    except Exception as e:
        return viol('twin-rejects-accepted-call', wit(ctx.model()))
    from sx.core import seq_eq
    return verdict(ctx, [('same-output-as-twin-without-rejected-calls', seq_eq(st.value(), st2.value()))] +
                   [('accepted-call-wrote-malformed-header', c) for c in header_conds], witness=wit,
                   sample=lambda m: {'calls': [x[0] for x in seq], 'outcomes': list(hist)})


def obligations(tier):
    from pydiffx.writer import DiffXWriter
    quick = tier == 'quick'
    obs = []
    from harness.rw import writer_internals_missing
    missing = writer_internals_missing()
    if missing is None:
        obs.append(Ob('step[arbitrary-state]', ob_step, {}, must_reach=['DiffXWriter._validate_section'], path_timeout=20,
                      desc='one writer call (valid and invalid argument variants, symbolic text / codec-name characters) '
                           'from an arbitrary valid writer state: accepted <=> hierarchy allows; rejected => no stream '
                           'operation and state deep-equal; accepted => appends only, invariant re-established',
                      bounds={'states': '9 ids x encoding chains over %s' % ENCS, 'call_variants': 32}))
    else:
        obs.append(('skipped', 'step[arbitrary-state]', missing))
    obs.append(Ob('constructor', ob_init, {}, desc='constructor with valid / invalid version and symbolic encoding name',
                  bounds={'name_len': [1, 2]}))
    K = 4 if quick else 6
    obs.append(Ob('public[K<=%d]' % K, ob_public, dict(K=K), must_reach=['DiffXWriter._validate_section'],
                  desc='all call sequences of length %d over the five calls through the public API' % K, bounds={'calls': K}))
    K2 = 2 if quick else 3
    obs.append(Ob('public-twin[states+1+%d]' % K2, ob_twin, dict(K1='states', K2=K2), must_reach=['DiffXWriter._validate_section'],
                  path_timeout=30,
                  desc='public API only: a canonical history reaching each of the 9 writer states (containers with / without '
                       'an own encoding), one call out of the 32 valid/invalid variants (symbolic text and codec-name '
                       'characters), %d more calls: rejected calls write nothing, acceptance follows the hierarchy, final '
                       'output == output of a twin writer given only the accepted calls' % K2,
                  bounds={'states': 9, 'encoding_variants': 3, 'calls_after': K2, 'variants': 32}))
    if not quick:
        obs.append(Ob('public-twin[3+1+2]', ob_twin, dict(K1=3, K2=2), must_reach=['DiffXWriter._validate_section'],
                      path_timeout=30, desc='as above with every 3-call prefix over the 7-call menu instead of the canonical histories',
                      bounds={'calls_before': 3, 'calls_after': 2, 'variants': 32}))
    return obs


def validate(tier):
    """Inv_w base case and reachability: the state constructed by hand equals the state the real constructor and
    real calls produce"""
    import io
    from pydiffx.writer import DiffXWriter
    from harness.rw import writer_internals_missing
    if writer_internals_missing() is not None:
        return 0
    n = 0
    w = DiffXWriter(io.BytesIO(), encoding='utf-16')
    assert _snapshot(w) == ([{'encoding': 'utf-16'}, {'encoding': 'utf-16'}], 'diffx'), _snapshot(w)
    n += 1
    w.new_change()
    assert _snapshot(w) == ([{'encoding': 'utf-16'}] * 3, '.change'), _snapshot(w)
    w.new_file(encoding='ascii')
    assert _snapshot(w) == ([{'encoding': 'utf-16'}] * 3 + [{'encoding': 'ascii'}], '..file'), _snapshot(w)
    w.write_meta({'a': 1})
    w.new_change(encoding='utf-8')
    assert _snapshot(w) == ([{'encoding': 'utf-16'}] * 2 + [{'encoding': 'utf-8'}], '.change'), _snapshot(w)
    n += 3
    return n


def replay(ob, label, w):
    import io
    import ref.spec as S
    from pydiffx.writer import DiffXWriter
    if w.get('call') == 'public':
        st = io.BytesIO()
        wr = DiffXWriter(st)
        prev = 'diffx'
        args = {'new_change': (), 'new_file': (), 'write_preamble': ('p',), 'write_meta': ({'a': 1},), 'write_diff': (b'd',)}
        for c, _ in w['history']:
            before = st.getvalue()
            t = _section_of(c, prev)
            try:
                getattr(wr, c)(*args[c])
                acc = True
            except Exception:
                acc = False
            if acc != (t in S.REF_HIER[prev]):
                return {'violated': True, 'signature': 'order:accepted!=allowed', 'detail': '%r after %r: accepted=%r' % (c, prev, acc)}
            if not acc and st.getvalue() != before:
                return {'violated': True, 'signature': 'atomic:rejected-call-wrote-bytes', 'detail': repr(w['history'])}
            if acc:
                prev = t
        return {'violated': False}
    if w.get('call') == 'twin':
        def mk(x):
            if x == '<unserialisable>':
                return Unserialisable()
            if isinstance(x, dict):
                return {kk: mk(vv) for kk, vv in x.items()}
            return x
        st = io.BytesIO()
        wr = DiffXWriter(st)
        prev = 'diffx'
        accepted = []
        tainted = False
        for lb, fn, a, k, valid_args in w['history']:
            if tainted and valid_args is True:
                valid_args = None
            a = [mk(x) for x in a]
            k = {kk: mk(vv) for kk, vv in k.items()}
            t = _section_of(lb, prev)
            before = st.getvalue()
            try:
                getattr(wr, fn)(*a, **k)
                acc = True
            except Exception as e:
                acc = False
            allowed = t in S.REF_HIER[prev]
            if acc and not allowed:
                return {'violated': True, 'signature': 'order:accepted-not-allowed', 'detail': '%s after %s accepted' % (lb, prev)}
            if acc and valid_args is False:
                return {'violated': True, 'signature': 'order:accepted-invalid-arguments', 'detail': '%s(%r, %r)' % (fn, a, k)}
            if not acc and allowed and valid_args is True:
                return {'violated': True, 'signature': 'order:valid-call-rejected', 'detail': '%s after %s' % (lb, prev)}
            if not acc and st.getvalue() != before:
                return {'violated': True, 'signature': 'atomic:rejected-call-wrote-bytes',
                        'detail': '%s(%r, %r) after %s wrote %r' % (fn, a, k, prev, st.getvalue()[len(before):])}
            if acc:
                if not st.getvalue().startswith(before) or st.getvalue() == before:
                    return {'violated': True, 'signature': 'append-only', 'detail': repr(st.getvalue())}
                if 'symbolic-encoding-name' not in lb and not tainted and header_conformant(st.getvalue()[len(before):]) is not True:
                    return {'violated': True, 'signature': 'order:accepted-call-wrote-malformed-header',
                            'detail': '%s(%r, %r) accepted and wrote %r' % (fn, a, k, st.getvalue()[len(before):][:120])}
                accepted.append((fn, a, k))
                prev = t
                if 'symbolic-encoding-name' in lb:
                    tainted = True
        st2 = io.BytesIO()
        w2 = DiffXWriter(st2)
        try:
            for fn, a, k in accepted:
                getattr(w2, fn)(*a, **k)
        except Exception as e:
            return {'violated': True, 'signature': 'atomic:twin-rejects-accepted-call', 'detail': repr(w['history'])}
        if st.getvalue() != st2.getvalue():
            return {'violated': True, 'signature': 'atomic:rejected-call-changed-later-output',
                    'detail': 'calls %r: output %r, without the rejected calls %r' % (
                        [h[0] for h in w['history']], st.getvalue(), st2.getvalue())}
        return {'violated': False}
    if w.get('call') == 'init':
        st = io.BytesIO()
        try:
            DiffXWriter(st, **w['kwargs'])
        except Exception as e:
            if st.getvalue():
                return {'violated': True, 'signature': 'atomic:rejected-call-wrote-bytes',
                        'detail': 'DiffXWriter(%r) raised %s after writing %r' % (w['kwargs'], type(e).__name__, st.getvalue())}
            return {'violated': False}
        bad = 'encoding' not in w['kwargs'] and header_conformant(st.getvalue()) is not True
        return {'violated': bad, 'signature': 'order:accepted-call-wrote-malformed-header',
                'detail': 'DiffXWriter(%r) wrote %r' % (w['kwargs'], st.getvalue()[:80])}
    # reach the pre-state through the public API
    s, chain = w['prev'], w['chain']
    st = io.BytesIO()
    wr = DiffXWriter(st, encoding=chain[0])
    decl = [chain[0]] + [chain[i] if chain[i] != chain[i - 1] else None for i in range(1, len(chain))]
    if LEVEL[s] >= 1:
        wr.new_change(**({} if decl[1] is None else {'encoding': decl[1]}))
    if LEVEL[s] >= 2:
        wr.new_file(**({} if decl[2] is None else {'encoding': decl[2]}))
    tail = {'.preamble': [('write_preamble', ('p',))], '.meta': [('write_meta', ({'a': 1},))],
            '..preamble': [('write_preamble', ('p',))], '..meta': [('write_meta', ({'a': 1},))],
            '...meta': [('write_meta', ({'a': 1},))], '...diff': [('write_meta', ({'a': 1},)), ('write_diff', (b'd\n',))]}
    for fn, a in tail.get(s, []):
        getattr(wr, fn)(*a)
    before = st.getvalue()
    state_before = copy.deepcopy((getattr(wr, '_stack', None), getattr(wr, '_prev_section', None)))
    args = [Unserialisable() if x == '<unserialisable>' else x for x in w['args']]
    args = [({k: (Unserialisable() if v == '<unserialisable>' else v) for k, v in x.items()} if isinstance(x, dict) else x)
            for x in args]
    t = _section_of(w['call'], s)
    try:
        getattr(wr, w['fn'])(*args, **w['kwargs'])
        raised = None
    except Exception as e:
        raised = e
    after = st.getvalue()
    if raised is not None:
        if after != before:
            return {'violated': True, 'signature': 'atomic:rejected-call-wrote-bytes',
                    'detail': '%s(%r, %r) after %s raised %s but wrote %r' % (w['fn'], w['args'], w['kwargs'], s,
                                                                            type(raised).__name__, after[len(before):])}
        if (getattr(wr, '_stack', None), getattr(wr, '_prev_section', None)) != state_before:
            # observable consequence: a following valid call behaves differently
            return {'violated': True, 'signature': 'atomic:rejected-call-changed-state',
                    'detail': '%s(%r, %r) after %s raised %s and left state %r (was %r)' % (
                        w['fn'], w['args'], w['kwargs'], s, type(raised).__name__,
                        (wr._stack, wr._prev_section), state_before)}
        if label and label.startswith('valid-call-rejected'):
            return {'violated': True, 'signature': 'order:valid-call-rejected', 'detail': '%s after %s: %s' % (w['fn'], s, raised)}
        return {'violated': False}
    if t not in S.REF_HIER[s]:
        return {'violated': True, 'signature': 'order:accepted-not-allowed', 'detail': '%s after %s accepted' % (w['fn'], s)}
    if not after.startswith(before) or after == before:
        return {'violated': True, 'signature': 'append-only', 'detail': repr(after)}
    if 'symbolic-encoding-name' not in w['call'] and header_conformant(after[len(before):]) is not True:
        return {'violated': True, 'signature': 'order:accepted-call-wrote-malformed-header',
                'detail': '%s(%r, %r) accepted and wrote %r' % (w['fn'], w['args'], w['kwargs'], after[len(before):][:120])}
    if label == 'accepted-invalid-arguments':
        return {'violated': True, 'signature': 'order:accepted-invalid-arguments', 'detail': '%s(%r, %r)' % (w['fn'], w['args'], w['kwargs'])}
    return {'violated': False}
