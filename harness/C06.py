"""C06 -- parse then re-serialise: byte-identical on canonical files, idempotent on others."""
import z3

from sx import instrument
from sx.core import (Ctx, PathTimeout, conj, lift, mk_seq, model_bytes, seq_eq, sym_bytes, concretize_value)
from sx.instrument import value_eq
from sx.run import Ob, ok, skip, verdict, viol

from harness import dom
from harness.C03 import Gen, STYLES, perms
from harness.rw import E8

ASSUMPTIONS = [
    'canonical files = outputs of the real writer for the symbolic trees of C05 (one symbolic section per run)',
    'foreign files = files of the C03 generator (permuted options, blank lines, CRLF headers, optional options absent) '
    'with one symbolic preamble or diff section; files the object model rejects are outside the property',
]


def setup():
    instrument.install('ref')


def ob_canonical(ctx, N, rich):
    from pydiffx import DiffX
    t = dom.build_tree(ctx, N, 2, rich)
    try:
        b = t.to_bytes()
    except UnicodeEncodeError:
        return skip('tree does not serialise')
    wit = lambda m: {'kind': 'canonical', 'data': model_bytes(m, b)}
    try:
        b2 = DiffX.from_bytes(b).to_bytes()
    except PathTimeout:
        raise
    except Exception as e:
        return viol('reparse/reserialise-raised:%s' % type(e).__name__, dict(wit(ctx.model()), error=str(e)[:200]))
    return verdict(ctx, [('byte-identical', seq_eq(b, b2))],
                   witness=lambda m: dict(wit(m), again=model_bytes(m, b2)), sample=lambda m: wit(m))


def ob_foreign(ctx, kind, N, encs):
    import ref.spec as S
    from pydiffx import DiffX
    from pydiffx.errors import BaseDiffXError
    style = ctx.pick('style', STYLES)
    crlf, blanks, rev_main, order_k, extra = style
    g = Gen(crlf)
    own, anc = ctx.pick('enc', encs)
    main_opts = [('version', '1.0')] + ([('encoding', anc)] if anc else [])
    g.container('diffx', main_opts, list(range(len(main_opts)))[::-1] if rev_main else None)
    g.blank(1)
    g.container('.change', [])
    sid = '..preamble'
    if kind == 'diff':
        g.container('..file', [])
        g.filler('...meta', [], '{"path": "f"}')
        sid = '...diff'
    eff = S.effective_encoding(g.chain, own, sid)
    opts = []
    if own:
        opts.append(('encoding', own))
    le = ctx.pick('line_endings', [None, 'unix', 'dos'])
    if le:
        opts.append(('line_endings', le))
    if sid != '...diff':
        indent = ctx.pick('indent', [None, 0, 3])
        if indent is not None:
            opts.append(('indent', indent))
    elif extra:
        opts.append(('type', 'text'))
    n = ctx.choose(0, N, 'n')
    body = sym_bytes(ctx, 'c', n)
    raw = mk_seq((tuple(body.el) if n else ()) + tuple(S.newline_bytes(le or 'unix', eff if sid != '...diff' else own)), bytes)
    g.blank(blanks)
    ps = perms(len(opts) + 1, True)
    try:
        g.content(sid, opts, raw, ps[(order_k * 7) % len(ps)])
    except S.Malformed:
        return skip('generator content malformed for this path')
    if sid == '..preamble':
        g.container('..file', [])
        g.filler('...meta', [('format', 'json')], '{"k": [1,2]}')
    f = g.data()
    wit = lambda m: {'kind': 'foreign', 'data': model_bytes(m, f)}
    try:
        t = DiffX.from_bytes(f)
    except BaseDiffXError:
        return skip('object model rejects the file')
    except PathTimeout:
        raise
    except Exception as e:
        return viol('from_bytes-raised:%s' % type(e).__name__, wit(ctx.model()))
    try:
        gbytes = t.to_bytes()
    except PathTimeout:
        raise
    except Exception as e:
        return viol('re-serialising-failed:%s' % type(e).__name__, dict(wit(ctx.model()), error=str(e)[:200]))
    # same section contents
    exp = [e for e in g.expected]
    secs = dict((s, o) for s, o in dom.sections_of(t))
    props = []
    target = t.changes[0].preamble_section if sid == '..preamble' else t.changes[0].files[0].diff_section
    key = 'text' if sid == '..preamble' else 'diff'
    want = [e for e in exp if e['section'] == sid][0][key]
    props.append(('content-carried', value_eq(target.content, want)))
    try:
        g2 = DiffX.from_bytes(gbytes).to_bytes()
    except PathTimeout:
        raise
    except Exception as e:
        m = ctx.model()
        return viol('fixed-point-broken:%s' % type(e).__name__, dict(wit(m), reserialised=model_bytes(m, gbytes)))
    props.append(('fixed-point', seq_eq(gbytes, g2)))
    return verdict(ctx, props, witness=lambda m: dict(wit(m), reserialised=model_bytes(m, gbytes)), sample=lambda m: wit(m))


def obligations(tier):
    quick = tier == 'quick'
    N = 3 if quick else 4
    cat = ['utf-8', 'utf-16', 'latin-1'] if quick else E8
    encs = [(e, 'utf-8') for e in cat] + [(None, e) for e in cat]
    obs = [Ob('canonical', ob_canonical, dict(N=N, rich=not quick),
              must_reach=['DiffXDOMReader.parse', 'DiffXDOMWriter.write_stream'], path_timeout=40,
              desc='to_bytes(from_bytes(b)) == b for every b the real writer produces from the symbolic trees',
              bounds={'text_len': [1, N], 'diff_len': [1, N + 1]})]
    for kind in ('preamble', 'diff'):
        obs.append(Ob('foreign[%s]' % kind, ob_foreign, dict(kind=kind, N=N, encs=encs),
                      must_reach=['DiffXDOMReader.parse', 'DiffXDOMWriter.write_stream'], path_timeout=40,
                      desc='foreign-style files with a symbolic %s section: re-serialising succeeds, carries the same '
                           'content and is a fixed point' % kind, bounds={'content_len': [0, N], 'encodings': cat}))
    return obs


def validate(tier):
    import glob
    import os
    from pydiffx import DiffX
    from sx.driver import REPO
    n = 0
    for f in sorted(glob.glob(os.path.join(REPO, 'docs/spec/example-diffs/*.diff'))):
        data = open(f, 'rb').read()
        try:
            t = DiffX.from_bytes(data)
        except Exception:
            continue
        g = t.to_bytes()
        assert DiffX.from_bytes(g).to_bytes() == g, f
        n += 1
    return n


def replay(ob, label, w):
    from pydiffx import DiffX
    from pydiffx.errors import BaseDiffXError
    data = w['data']
    try:
        t = DiffX.from_bytes(data)
    except BaseDiffXError:
        return {'violated': w['kind'] == 'canonical', 'signature': 'reserialise:canonical-rejected', 'detail': repr(data)}
    except Exception as e:
        return {'violated': True, 'signature': 'reserialise:from_bytes-raised:%s' % type(e).__name__, 'detail': repr(data)}
    try:
        g = t.to_bytes()
    except Exception as e:
        return {'violated': True, 'signature': 'reserialise:to_bytes-failed', 'detail': '%s: %s for %r' % (type(e).__name__, e, data)}
    if w['kind'] == 'canonical':
        return {'violated': g != data, 'signature': 'reserialise:not-byte-identical', 'detail': '%r -> %r' % (data, g)}
    try:
        g2 = DiffX.from_bytes(g).to_bytes()
    except Exception as e:
        return {'violated': True, 'signature': 'reserialise:fixed-point-broken', 'detail': '%s: %s for %r' % (type(e).__name__, e, g)}
    if g2 != g:
        return {'violated': True, 'signature': 'reserialise:not-idempotent', 'detail': '%r -> %r -> %r' % (data, g, g2)}
    return {'violated': False}
