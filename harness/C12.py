"""C12 -- unknown header options are carried through and change nothing else."""
import z3

from sx.core import (Ctx, PathTimeout, SInt, conj, disj, lift, mk_seq, model_bytes, neg, rng, sym_bytes)
from sx.instrument import value_eq
from sx.regex import nfa_formula
from sx.run import Ob, ok, skip, verdict, viol
from sx.streams import SymStream

from harness.C11 import KEY, VAL, _value_props, _w

ASSUMPTIONS = [
    'base files: three concrete well-formed files (all nine section ids, utf-8 / utf-16 / no encoding, CRLF headers in '
    'one of them); 1 or 2 options with symbolic key (1..3 bytes of the key grammar) and symbolic value (1..3 bytes of '
    'the value grammar) are inserted into any one header at any position',
    'the inserted keys are assumed different from every option the library reads (encoding, length, indent, '
    'line_endings, format, version, mimetype, type) and from each other',
    'integer-valued option = -?[0-9]+; other literals Python int() accepts are tolerated either way (as C11)',
]

KNOWN = [b'encoding', b'length', b'indent', b'line_endings', b'format', b'version', b'mimetype', b'type']

FILES = {
    'utf8': [
        (b'#diffx:', [b'encoding=utf-8', b'version=1.0'], b''),
        (b'#.preamble:', [b'indent=2', b'length=10', b'line_endings=unix'], b'  A\n  bc\n\n'),
        (b'#.meta:', [b'format=json', b'length=9'], b'{"a": 1}\n'),
        (b'#.change:', [], b''),
        (b'#..preamble:', [b'length=3', b'mimetype=text/markdown'], b'hi\n'),
        (b'#..meta:', [b'length=3'], b'{}\n'),
        (b'#..file:', [b'encoding=latin-1'], b''),
        (b'#...meta:', [b'format=json', b'length=11'], b'{"p": "\xe9"}\n'),
        (b'#...diff:', [b'length=12', b'type=text'], b'--- a\n+++ b\n'),
    ],
    'utf16-crlf': [
        (b'#diffx:', [b'version=1.0'], b''),
        (b'#.change:', [b'encoding=utf-16'], b''),
        (b'#..preamble:', [b'length=8', b'line_endings=dos'], 'x\r\n'.encode('utf-16')),
        (b'#..file:', [], b''),
        (b'#...meta:', [b'length=8'], '{}\n'.encode('utf-16')),
        (b'#...diff:', [b'length=2'], b'd\n'),
    ],
    'noenc': [
        (b'#diffx:', [b'version=1.0'], b''),
        (b'#.change:', [], b''),
        (b'#..file:', [], b''),
        (b'#...meta:', [b'length=3'], b'{}\n'),
    ],
}


def build(sections, crlf, extra=None):
    """extra: (header index, [(position, key, value)])"""
    el = ()
    for i, (hid, opts, content) in enumerate(sections):
        items = [tuple(o) for o in opts]
        if extra and extra[0] == i:
            for pos, k, v in extra[1]:
                items.insert(pos, tuple(lift(k).el) + (61,) + tuple(lift(v).el))
        line = tuple(hid)
        for j, it in enumerate(items):
            line += ((32,) if j == 0 else (44, 32)) + tuple(it)
        el += line + ((13, 10) if crlf else (10,)) + tuple(content)
    return mk_seq(el, bytes)


def _read(data):
    from pydiffx.reader import DiffXReader
    return list(DiffXReader(SymStream(data)))


def _line_len(sections, hi, extras):
    hid, opts, _ = sections[hi]
    items = [len(o) for o in opts] + [len(lift(k).el) + 1 + len(lift(v).el) for _, k, v in extras]
    return len(hid) + sum(items) + (1 + 2 * (len(items) - 1) if items else 0)


def ob_insert(ctx, fname, K, N, headers=None, pad_lengths=None):
    sections = FILES[fname]
    crlf = fname.endswith('crlf')
    base = _read(build(sections, crlf))
    hi = ctx.pick('header', headers if headers is not None else list(range(len(sections))))
    nextra = K
    extras = []
    nopts = len(sections[hi][1])
    for j in range(nextra):
        kl = ctx.choose(1, N, 'klen%d' % j)
        vl = ctx.choose(1, N, 'vlen%d' % j)
        k = sym_bytes(ctx, 'k%d' % j, kl)
        v = sym_bytes(ctx, 'v%d' % j, vl)
        ctx.assume(nfa_formula(KEY, k.el))
        ctx.assume(nfa_formula(VAL, v.el))
        for kn in KNOWN:
            c = k.eq_cond(kn)
            if c is not False:
                ctx.assume(neg(c))
        pos = ctx.choose(0, nopts + j, 'pos%d' % j)
        extras.append((pos, k, v))
    if pad_lengths:
        # the value is padded with concrete characters so that the header line (without its newline) has a chosen
        # length: around multiples of the reader's read-ahead block, where its line search changes behaviour
        L = ctx.pick('header-len', pad_lengths)
        pad = L - _line_len(sections, hi, extras)
        if pad < 0:
            return skip('header already longer than %d' % L)
        pos, k, v = extras[0]
        where = ctx.pick('pad-at', ['front', 'back'])
        v = mk_seq((tuple(b'x' * pad) + tuple(v.el)) if where == 'front' else (tuple(v.el) + tuple(b'x' * pad)), bytes)
        extras[0] = (pos, k, v)
    if nextra == 2:
        c = extras[0][1].eq_cond(extras[1][1])
        if c is not False:
            ctx.assume(neg(c))
    data = build(sections, crlf, (hi, extras))
    wit = lambda m: {'file': fname, 'data': model_bytes(m, data), 'header': hi,
                     'added': [[model_bytes(m, k), model_bytes(m, v)] for _, k, v in extras]}
    try:
        recs = _read(data)
    except PathTimeout:
        raise
    except Exception as e:
        return viol('raised:%s' % type(e).__name__, dict(wit(ctx.model()), error=str(e)[:200]))
    if len(recs) != len(base):
        return viol('record-count', wit(ctx.model()))
    props = []
    for i, (r, b) in enumerate(zip(recs, base)):
        for key in ('section', 'level', 'type', 'line'):
            props.append(('%s-changed' % key, value_eq(r.get(key), b.get(key))))
        for key in ('text', 'diff', 'metadata'):
            if (key in r) != (key in b):
                props.append(('content-key', False))
            elif key in b:
                props.append(('content-changed', value_eq(r[key], b[key])))
        ro = r['options']
        bo = b['options']
        for k0, v0 in bo.items():
            props.append(('known-option-changed', value_eq(ro.get(k0), v0)))
        if i != hi:
            props.append(('options-changed-elsewhere', len(ro) == len(bo)))
        else:
            props.append(('option-count', len(ro) == len(bo) + nextra))
            for _, k, v in extras:
                kstr = mk_seq([_w(e) for e in lift(k).el], str)
                if kstr not in ro:
                    props.append(('added-option-missing', False))
                else:
                    props.extend(_value_props(ro[kstr], v))
    return verdict(ctx, props, witness=wit, sample=lambda m: wit(m))


LOOKALIKE_VALUES = {b'encoding': b'utf-16', b'length': b'2', b'indent': b'0', b'line_endings': b'dos', b'format': b'yaml',
                    b'version': b'2.0', b'mimetype': b'x/y', b'type': b'binary', b'diff_type': b'binary'}


def ob_lookalike(ctx, fname):
    """unknown keys that *look like* options the library reads: case variants (symbolic choice per letter), the known
    name plus one symbolic character as suffix or prefix; inserted before and after the real option"""
    sections = FILES[fname]
    crlf = fname.endswith('crlf')
    base = _read(build(sections, crlf))
    hi = ctx.choose(0, len(sections) - 1, 'header')
    known = ctx.pick('like', sorted(LOOKALIKE_VALUES))
    kind = ctx.pick('variant', ['case', 'suffix', 'prefix'])
    if kind == 'case':
        k = sym_bytes(ctx, 'k', len(known))
        for e, c in zip(k.el, known):
            if chr(c).isalpha():
                ctx.assume(z3.Or(e == c, e == (c ^ 0x20)))
            else:
                ctx.assume(e == c)
        ctx.assume(neg(k.eq_cond(known)))
    elif kind == 'suffix':
        x = sym_bytes(ctx, 'x', 1)
        ctx.assume(nfa_formula(rb'[A-Za-z0-9_-]', x.el))
        k = mk_seq(tuple(known) + x.el, bytes)
    else:
        x = sym_bytes(ctx, 'x', 1)
        ctx.assume(nfa_formula(rb'[A-Za-z]', x.el))
        k = mk_seq(x.el + tuple(known), bytes)
    for kn in KNOWN + [b'diff_type']:
        c = lift(k).eq_cond(kn)
        if c is not False:
            ctx.assume(neg(c))
    v = LOOKALIKE_VALUES[known]
    nopts = len(sections[hi][1])
    pos = ctx.choose(0, nopts, 'pos')
    extras = [(pos, k, v)]
    data = build(sections, crlf, (hi, extras))
    wit = lambda m: {'file': fname, 'data': model_bytes(m, data), 'header': hi,
                     'added': [[model_bytes(m, k), v]]}
    try:
        recs = _read(data)
    except PathTimeout:
        raise
    except Exception as e:
        return viol('raised:%s' % type(e).__name__, dict(wit(ctx.model()), error=str(e)[:200]))
    if len(recs) != len(base):
        return viol('record-count', wit(ctx.model()))
    props = []
    for i, (r, b) in enumerate(zip(recs, base)):
        for key in ('section', 'level', 'type', 'line'):
            props.append(('%s-changed' % key, value_eq(r.get(key), b.get(key))))
        for key in ('text', 'diff', 'metadata'):
            if (key in r) != (key in b):
                props.append(('content-key', False))
            elif key in b:
                props.append(('content-changed', value_eq(r[key], b[key])))
        ro, bo = r['options'], b['options']
        for k0, v0 in bo.items():
            props.append(('known-option-changed', value_eq(ro.get(k0), v0)))
        if i != hi:
            props.append(('options-changed-elsewhere', len(ro) == len(bo)))
        else:
            props.append(('option-count', len(ro) == len(bo) + 1))
            kstr = mk_seq([_w(e) for e in lift(k).el], str)
            if kstr not in ro:
                props.append(('added-option-missing', False))
            else:
                props.extend(_value_props(ro[kstr], v))
    return verdict(ctx, props, witness=wit, sample=lambda m: wit(m))


def obligations(tier):
    quick = tier == 'quick'
    obs = []
    for fname in FILES:
        N = 2 if quick else 3
        obs.append(Ob('insert1[%s]' % fname, ob_insert, dict(fname=fname, K=1, N=N),
                      must_reach=['DiffXReader._read_header'], path_timeout=20,
                      desc='real reader on the base file and on the file with one unknown option (symbolic key/value '
                           'of 1..%d bytes each) inserted into any header at any position' % N,
                      bounds={'inserted': 1, 'key_len': [1, N], 'value_len': [1, N], 'headers': len(FILES[fname])}))
    for fname in (['utf8'] if quick else list(FILES)):
        obs.append(Ob('lookalike[%s]' % fname, ob_lookalike, dict(fname=fname), must_reach=['DiffXReader._read_header'],
                      path_timeout=20, desc='unknown keys that look like known options (every case variant, known name + one '
                      'symbolic character as suffix / prefix) with a conflicting value, in every header at every position',
                      bounds={'known_names': len(LOOKALIKE_VALUES), 'variants': ['case', 'suffix', 'prefix']}))
    from harness.C17 import block_lengths
    PL = block_lengths([94, 95, 96, 97, 191, 192] if quick else
                       [93, 94, 95, 96, 97, 98, 127, 128, 129, 190, 191, 192, 193, 255, 256, 287, 288, 383, 384, 1055, 1056], quick)
    for fname in FILES:
        obs.append(Ob('padded[%s]' % fname, ob_insert, dict(fname=fname, K=1, N=1, pad_lengths=PL),
                      must_reach=['DiffXReader._read_header'], path_timeout=20,
                      desc='one unknown option (symbolic 1-byte key, value = concrete padding + symbolic byte) in any header '
                           'at any position, padded so that the header line is %s bytes long (around multiples of the '
                           'read-ahead block; LF and CRLF files)' % PL,
                      bounds={'header_len': PL, 'headers': len(FILES[fname])}))
    hs = [1, 8] if quick else [0, 1, 2, 4, 6, 8]
    N2 = 1 if quick else 2
    obs.append(Ob('insert2[utf8]', ob_insert, dict(fname='utf8', K=2, N=N2, headers=hs),
                  must_reach=['DiffXReader._read_header'], path_timeout=20,
                  desc='two unknown options (symbolic keys/values of 1..%d bytes) at any two positions of header %s' % (N2, hs),
                  bounds={'inserted': 2, 'key_len': [1, N2], 'value_len': [1, N2], 'headers': hs}))
    return obs


def validate(tier):
    import io
    from pydiffx.reader import DiffXReader
    n = 0
    for fname, sections in FILES.items():
        data = build(sections, fname.endswith('crlf'))
        a = [(r['section'], dict(r['options'])) for r in DiffXReader(io.BytesIO(data))]
        assert len(a) == len(sections)
        n += 1
    return n


def replay(ob, label, w):
    import io
    import re
    from pydiffx.reader import DiffXReader
    sections = FILES[w['file']]
    crlf = w['file'].endswith('crlf')
    base = [dict(r, options=dict(r['options'])) for r in DiffXReader(io.BytesIO(build(sections, crlf)))]
    try:
        recs = [dict(r, options=dict(r['options'])) for r in DiffXReader(io.BytesIO(w['data']))]
    except Exception as e:
        return {'violated': True, 'signature': 'unknown-options:rejected:%s' % type(e).__name__,
                'detail': '%r: %s' % (w['data'][:300], e)}
    exp = [dict(b, options=dict(b['options'])) for b in base]
    for k, v in w['added']:
        v = v.decode()
        if re.fullmatch(r'-?[0-9]+', v):
            v = int(v)
        elif re.fullmatch(r'[+-]?[0-9]+(?:_[0-9]+)*', v):
            v = recs[w['header']]['options'].get(k.decode(), v) if len(recs) > w['header'] else v
        exp[w['header']]['options'][k.decode()] = v
    if recs != exp:
        return {'violated': True, 'signature': 'unknown-options:records-differ',
                'detail': 'added %r to header %d: got %r expected %r' % (w['added'], w['header'], recs, exp)}
    return {'violated': False}
