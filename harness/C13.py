"""C13 -- generated statistics are exact, additive, idempotent and non-destructive."""
import z3

from sx.core import (Ctx, PathTimeout, SInt, conj, lift, mk_seq, model_bytes, model_int, sym_bytes, sym_int, sym_str, zint)
from sx.instrument import value_eq
from sx.run import Ob, ok, skip, verdict, viol

ASSUMPTIONS = [
    'diffs are assembled from a catalogue of hunk shapes with known counts; body-line payloads and garbage lines between '
    'hunks are symbolic bytes (no CR/LF inside a payload); unix/dos endings, explicit or detected line_endings, diff '
    'encoding unset / utf-8 / utf-16-le / utf-16',
    'aggregation: per-file figures are arbitrary symbolic integers (z3 Int) placed in pre-existing stats dictionaries',
    'logging is not the subject (logger.error runs natively)',
]

# hunk shapes: list of body markers; 'M' = "\ No newline at end of file"
SHAPES = [
    [' ', '-', '+', ' '], ['+', '+'], ['-'], [' ', '-', 'M', '+', 'M'], ['-', '-', '+'], [' ', ' ', '+', ' '],
]


def _header(shape, start=3):
    o = sum(1 for m in shape if m in ' -')
    n = sum(1 for m in shape if m in ' +')
    return '@@ -%d,%d +%d,%d @@' % (start, o, start, n)


def build_diff(ctx, shapes, garbage, nl, plen, tag='d'):
    """returns (list of str lines with symbolic payload, inserts, deletes)"""
    lines = []
    ins = dele = 0
    k = 0
    for gi, shape in enumerate(shapes):
        if garbage[gi]:
            g = sym_str(ctx, '%sg%d' % (tag, gi), garbage[gi], max_cp=127)
            for e in g.el:
                ctx.assume(z3.And(e != 10, e != 13))
            # a garbage line must not itself look like the start of a hunk header
            ctx.assume(g.el[0] != 64)
            lines.append(g)
        lines.append(_header(shape))
        for m in shape:
            if m == 'M':
                lines.append('\\ No newline at end of file')
                continue
            p = sym_str(ctx, '%sp%d' % (tag, k), plen, max_cp=127) if plen else ''
            k += 1
            for e in (lift(p).el if plen else ()):
                ctx.assume(z3.And(e != 10, e != 13))
            lines.append(lift(m) + p if plen else m)
            ins += m == '+'
            dele += m == '-'
    if garbage[len(shapes)]:
        g = sym_str(ctx, '%sgt' % tag, garbage[len(shapes)], max_cp=127)
        for e in g.el:
            ctx.assume(z3.And(e != 10, e != 13))
        ctx.assume(g.el[0] != 64)
        lines.append(g)
    text = lift('')
    for l in lines:
        text = lift(text + l + nl)
    return mk_seq(text.el, str), ins, dele


def ob_file(ctx, plen, quick=False):
    from pydiffx.dom.objects import DiffXFileSection, DiffXChangeSection, DiffX
    nshapes = ctx.choose(1, 2, 'hunks')
    shapes = [ctx.pick('shape%d' % i, SHAPES[:4] if quick else SHAPES) for i in range(nshapes)]
    garbage = [ctx.choose(0, 1 if quick else 2, 'garbage%d' % i) for i in range(nshapes + 1)]
    le = ctx.pick('line_endings', [None, 'unix', 'dos'])
    nlk = ctx.pick('newline', ['unix', 'dos']) if le is None else le
    nl = {'unix': '\n', 'dos': '\r\n'}[nlk]
    enc = ctx.pick('diff_encoding', [None, 'utf-8', 'utf-16-le', 'utf-16'])
    text, ins, dele = build_diff(ctx, shapes, garbage, nl, plen)
    raw = lift(text).encode(enc or 'ascii')
    d = DiffX()
    f = d.add_change().add_file(meta={'path': 'x'})
    f.diff = raw
    if le:
        f.diff_line_endings = le
    if enc:
        f.diff_encoding = enc
    pre = ctx.choose(0, 1, 'pre-existing-stats')
    custom = sym_int(ctx, 'custom')
    if pre:
        f.meta['stats'] = {'insertions': sym_int(ctx, 'oi'), 'custom': custom}
    wit = lambda m: {'kind': 'file', 'diff': model_bytes(m, raw), 'line_endings': le, 'encoding': enc,
                     'pre': {'insertions': 7, 'custom': 5} if pre else None, 'ins': ins, 'del': dele}
    try:
        f.generate_stats()
        snap1 = dict(f.meta.get('stats', {}).items()) if 'stats' in f.meta else None
        f.generate_stats()
    except PathTimeout:
        raise
    except Exception as e:
        return viol('raised:%s' % type(e).__name__, wit(ctx.model()))
    st = f.meta.get('stats') if 'stats' in f.meta else None
    if st is None:
        return viol('no-stats-for-text-diff', wit(ctx.model()))
    props = [('insertions', value_eq(st.get('insertions'), ins)), ('deletions', value_eq(st.get('deletions'), dele)),
             ('lines changed', value_eq(st.get('lines changed'), ins + dele)),
             ('idempotent', value_eq(dict(st.items()), snap1)),
             ('other-metadata-preserved', value_eq(f.meta.get('path'), 'x'))]
    if pre:
        props.append(('custom-key-preserved', value_eq(st.get('custom'), custom)))
    props.append(('key-set', len(st) == (4 if pre else 3)))
    return verdict(ctx, props, witness=wit, sample=lambda m: wit(m))


def ob_regenerate(ctx, plen):
    """statistics are a function of the tree as it is *now*: generate, replace the diff (other newline convention, other
    encoding, other counts), generate again -- the figures must be those of the new diff"""
    from pydiffx.dom.objects import DiffX
    d = DiffX()
    f = d.add_change().add_file(meta={'path': 'x'})
    counts = []
    history = []
    for round_ in range(2):
        shape = ctx.pick('shape%d' % round_, SHAPES[:3])
        nlk = ctx.pick('newline%d' % round_, ['unix', 'dos'])
        enc = ctx.pick('diff_encoding%d' % round_, [None, 'utf-16'])
        declare = ctx.choose(0, 1, 'declare-line-endings%d' % round_) if round_ == 0 else 0
        text, ins, dele = build_diff(ctx, [shape], [0, 0], {'unix': '\n', 'dos': '\r\n'}[nlk], plen)
        raw = lift(text).encode(enc or 'ascii')
        f.diff = raw
        if round_ == 0:
            if enc:
                f.diff_encoding = enc
            if declare:
                f.diff_line_endings = nlk
        else:
            # the user assigns new content and describes it: the encoding always, the line endings either explicitly
            # ('declared') or not at all -- then only an option the *user* had set before is removed
            mode = ctx.pick('second-options', ['undeclared', 'declared'])
            if enc:
                f.diff_encoding = enc
            else:
                f.diff_section.options.pop('encoding', None)
            if mode == 'declared':
                f.diff_line_endings = nlk
            elif history[0]['declared']:
                f.diff_section.options.pop('line_endings', None)
        history.append({'diff': raw, 'encoding': enc, 'newline': nlk, 'declared': bool(declare) if round_ == 0 else (mode == 'declared')})
        counts.append((ins, dele))
        try:
            d.generate_stats()
        except PathTimeout:
            raise
        except Exception as e:
            return viol('raised:%s' % type(e).__name__, {'kind': 'regenerate', 'history': [dict(h, diff=model_bytes(ctx.model(), h['diff'])) for h in history]})
    wit = lambda m: {'kind': 'regenerate', 'history': [dict(h, diff=model_bytes(m, h['diff'])) for h in history],
                     'ins': counts[1][0], 'del': counts[1][1]}
    st = f.meta.get('stats') if 'stats' in f.meta else None
    if st is None:
        return viol('no-stats-for-text-diff', wit(ctx.model()))
    ins, dele = counts[1]
    top = d.meta.get('stats') if 'stats' in d.meta else {}
    props = [('insertions', value_eq(st.get('insertions'), ins)), ('deletions', value_eq(st.get('deletions'), dele)),
             ('lines changed', value_eq(st.get('lines changed'), ins + dele)),
             ('top-level-insertions', value_eq(top.get('insertions'), ins)),
             ('top-level-deletions', value_eq(top.get('deletions'), dele))]
    return verdict(ctx, props, witness=wit, sample=lambda m: wit(m))


def ob_untouched(ctx):
    """binary, empty, absent and unparsable diffs keep whatever statistics they had"""
    from pydiffx.dom.objects import DiffX
    kind = ctx.pick('kind', ['binary', 'absent', 'unparsable-premature-end', 'unparsable-garbage-in-hunk'])
    pre = ctx.choose(0, 1, 'pre-existing-stats')
    d = DiffX()
    f = d.add_change().add_file(meta={'path': 'x'})
    n = ctx.choose(1, 2, 'n')
    payload = sym_bytes(ctx, 'p', n)
    for e in payload.el:
        ctx.assume(z3.And(e != 10, e != 13))
    if kind == 'binary':
        f.diff = b'@@ -1 +1 @@\n-a\n+' + payload + b'\n'
        f.diff_type = 'binary'
    elif kind == 'unparsable-premature-end':
        f.diff = b'@@ -1,3 +1,3 @@\n-a\n+' + payload + b'\n'
    elif kind == 'unparsable-garbage-in-hunk':
        ctx.assume(z3.And(payload.el[0] != 32, payload.el[0] != 43, payload.el[0] != 45, payload.el[0] != 92,
                          payload.el[0] != 9, payload.el[0] != 11, payload.el[0] != 12))
        f.diff = b'@@ -1,2 +1,2 @@\n-a\n' + payload + b'\n+b\n'
    oi, oc = sym_int(ctx, 'oi'), sym_int(ctx, 'oc')
    if pre:
        f.meta['stats'] = {'insertions': oi, 'custom': oc}
    wit = lambda m: {'kind': 'untouched', 'case': kind, 'diff': model_bytes(m, f.diff) if f.diff else None,
                     'pre': {'insertions': 7, 'custom': 5} if pre else None}
    import logging
    logging.disable(logging.CRITICAL)
    try:
        f.generate_stats()
    except Exception as e:
        return viol('raised:%s' % type(e).__name__, wit(ctx.model()))
    finally:
        logging.disable(logging.NOTSET)
    if pre:
        st = f.meta.get('stats')
        props = [('stats-untouched', conj([value_eq(st.get('insertions'), oi), value_eq(st.get('custom'), oc), len(st) == 2]))]
    else:
        props = [('stats-untouched', 'stats' not in f.meta)]
    return verdict(ctx, props, witness=wit, sample=lambda m: wit(m))


def ob_aggregate(ctx, C, F):
    """sums over files and changes hold for all integers (LIA); custom keys preserved; idempotent"""
    from pydiffx import DiffX
    d = DiffX()
    nch = ctx.choose(0, C, 'changes')
    vars_ = []
    for i in range(nch):
        c = d.add_change()
        if ctx.choose(0, 1, 'change%d.pre-stats' % i):
            c.meta['stats'] = {'custom': sym_int(ctx, 'cc%d' % i), 'files': sym_int(ctx, 'cf%d' % i)}
        nf = ctx.choose(0, F, 'files%d' % i)
        fl = []
        for j in range(nf):
            f = c.add_file(meta={'path': 'p'})
            if ctx.choose(0, 1, 'has%d_%d' % (i, j)):
                st = {'insertions': sym_int(ctx, 'i%d_%d' % (i, j)), 'deletions': sym_int(ctx, 'd%d_%d' % (i, j)),
                      'lines changed': sym_int(ctx, 'l%d_%d' % (i, j)), 'custom': sym_int(ctx, 'c%d_%d' % (i, j))}
                f.meta['stats'] = st
                fl.append(dict(st))
            else:
                fl.append(None)
        vars_.append(fl)
    if ctx.choose(0, 1, 'main.pre-stats'):
        d.meta['stats'] = {'custom': sym_int(ctx, 'mc'), 'changes': sym_int(ctx, 'mch')}
        main_custom = d.meta['stats']['custom']
    else:
        main_custom = None
    d.generate_stats()

    def z(x):
        return x.e if isinstance(x, SInt) else z3.IntVal(x)
    props = []
    tot = {'insertions': z3.IntVal(0), 'deletions': z3.IntVal(0), 'lines changed': z3.IntVal(0), 'files': 0}
    for ci, (c, fl) in enumerate(zip(d.changes, vars_)):
        s = c.meta['stats']
        for k in ('insertions', 'deletions', 'lines changed'):
            v = z3.IntVal(0)
            for f in fl:
                if f:
                    v = v + z(f[k])
            props.append(('change-sum:' + k, z(s[k]) == v))
            tot[k] = tot[k] + v
        props.append(('change-file-count', value_eq(s['files'], len(fl))))
        tot['files'] += len(fl)
        for f, orig in zip(c.files, fl):
            if orig:
                props.append(('file-stats-preserved', value_eq(dict(f.meta['stats'].items()), orig)))
            else:
                props.append(('file-without-diff-has-no-stats', 'stats' not in f.meta))
    s = d.meta['stats']
    for k in ('insertions', 'deletions', 'lines changed'):
        props.append(('total-sum:' + k, z(s[k]) == tot[k]))
    props.append(('total-counts', conj([value_eq(s['files'], tot['files']), value_eq(s['changes'], len(d.changes))])))
    if main_custom is not None:
        props.append(('main-custom-preserved', value_eq(s.get('custom'), main_custom)))
    snap = [dict(c.meta['stats'].items()) for c in d.changes] + [dict(s.items())]
    d.generate_stats()
    snap2 = [dict(c.meta['stats'].items()) for c in d.changes] + [dict(d.meta['stats'].items())]
    props.append(('idempotent', value_eq(snap, snap2)))
    return verdict(ctx, props, witness=lambda m: {'kind': 'aggregate', 'shape': [[(None if f is None else {k: model_int(m, v) for k, v in f.items()}) for f in fl] for fl in vars_]},
                   sample=lambda m: {'changes': nch, 'files': [len(fl) for fl in vars_]})


def obligations(tier):
    quick = tier == 'quick'
    obs = [Ob('file-stats', ob_file, dict(plen=1 if quick else 2, quick=quick), must_reach=['DiffXFileSection.generate_stats',
                                                                              'unified_diffs:get_unified_diff_hunks'],
              path_timeout=30, desc='real DiffXFileSection.generate_stats on diffs of 1-2 hunks (shape catalogue) with '
              'symbolic payloads and garbage lines; counts == ground truth; custom keys kept; second call changes nothing',
              bounds={'hunks': [1, 2], 'payload_len': 1 if quick else 2, 'garbage_len': [0, 2]})]
    obs.append(Ob('regenerate', ob_regenerate, dict(plen=1), must_reach=['DiffXFileSection.generate_stats'], path_timeout=30,
                  desc='generate, replace the diff by one with another newline convention / encoding / counts (line endings '
                       'declared or not), generate again: figures of file and top level are those of the new diff',
                  bounds={'rounds': 2, 'shapes': 3, 'payload_len': 1}))
    obs.append(Ob('untouched', ob_untouched, {}, must_reach=['DiffXFileSection.generate_stats'],
                  desc='binary / absent / unparsable diffs keep their statistics', bounds={'payload_len': [1, 2]}))
    C, F = (2, 2) if quick else (3, 3)
    obs.append(Ob('aggregate', ob_aggregate, dict(C=C, F=F), must_reach=['DiffX.generate_stats', 'DiffXChangeSection.generate_stats'],
                  desc='sums and counts over <= %dx%d trees with symbolic integer figures' % (C, F), bounds={'changes': C, 'files': F}))
    return obs


def validate(tier):
    from pydiffx import DiffX
    n = 0
    d = DiffX()
    f = d.add_change().add_file(meta={'p': 1}, diff=b'--- a\n+++ b\n@@ -1,2 +1,2 @@\n a\n-b\n+c\n')
    d.generate_stats()
    assert f.meta['stats'] == {'deletions': 1, 'insertions': 1, 'lines changed': 2}, f.meta
    assert d.meta['stats'] == {'changes': 1, 'files': 1, 'deletions': 1, 'insertions': 1, 'lines changed': 2}
    n += 2
    return n


def replay(ob, label, w):
    import logging
    from pydiffx import DiffX
    logging.disable(logging.CRITICAL)
    if w['kind'] == 'aggregate':
        d = DiffX()
        exp = []
        for fl in w['shape']:
            c = d.add_change()
            tot = {'insertions': 0, 'deletions': 0, 'lines changed': 0}
            for f in fl:
                fs = c.add_file(meta={'path': 'p'})
                if f:
                    fs.meta['stats'] = dict(f)
                    for k in tot:
                        tot[k] += f[k]
            exp.append(dict(tot, files=len(fl)))
        d.generate_stats()
        got = [dict(c.meta['stats']) for c in d.changes]
        if got != exp:
            return {'violated': True, 'signature': 'stats:aggregation', 'detail': '%r vs %r' % (got, exp)}
        return {'violated': False}
    d = DiffX()
    f = d.add_change().add_file(meta={'path': 'x'})
    if w.get('diff') is not None:
        f.diff = w['diff']
    if w.get('line_endings'):
        f.diff_line_endings = w['line_endings']
    if w.get('encoding'):
        f.diff_encoding = w['encoding']
    if w.get('case') == 'binary':
        f.diff_type = 'binary'
    if w.get('pre'):
        f.meta['stats'] = dict(w['pre'])
    try:
        f.generate_stats()
        first = dict(f.meta.get('stats', {})) if 'stats' in f.meta else None
        f.generate_stats()
    except Exception as e:
        return {'violated': True, 'signature': 'stats:raised:%s' % type(e).__name__, 'detail': str(e)}
    st = dict(f.meta['stats']) if 'stats' in f.meta else None
    if w['kind'] == 'regenerate':
        from pydiffx.dom.objects import DiffX
        d = DiffX()
        f = d.add_change().add_file(meta={'path': 'x'})
        h0, h1 = w['history']
        f.diff = h0['diff']
        if h0['encoding']:
            f.diff_encoding = h0['encoding']
        if h0['declared']:
            f.diff_line_endings = h0['newline']
        try:
            d.generate_stats()
            f.diff = h1['diff']
            if h1['encoding']:
                f.diff_encoding = h1['encoding']
            else:
                f.diff_section.options.pop('encoding', None)
            if h1['declared']:
                f.diff_line_endings = h1['newline']
            elif h0['declared']:
                f.diff_section.options.pop('line_endings', None)
            d.generate_stats()
        except Exception as e:
            return {'violated': True, 'signature': 'stats:raised:%s' % type(e).__name__, 'detail': repr(w)[:400]}
        st = dict(f.meta.get('stats', {}))
        top = dict(d.meta.get('stats', {}))
        exp = {'insertions': w['ins'], 'deletions': w['del'], 'lines changed': w['ins'] + w['del']}
        bad = {k: (st.get(k), v) for k, v in exp.items() if st.get(k) != v}
        bad.update({'top ' + k: (top.get(k), exp[k]) for k in ('insertions', 'deletions') if top.get(k) != exp[k]})
        return {'violated': bool(bad), 'signature': 'stats:stale-after-diff-replaced', 'detail': 'after replacing the diff: %r (got, expected); history %r' % (bad, w['history'])}
    if w['kind'] == 'untouched':
        bad = st != w.get('pre')
        return {'violated': bad, 'signature': 'stats:touched-unanalysable-diff', 'detail': '%s: %r' % (w['case'], st)}
    exp = dict(w.get('pre') or {})
    exp.update({'insertions': w['ins'], 'deletions': w['del'], 'lines changed': w['ins'] + w['del']})
    if st != exp or first != st:
        sig = 'stats:wrong-counts' + (':encoded-diff' if w.get('encoding') in ('utf-16', 'utf-16-le', 'utf-32') else '')
        return {'violated': True, 'signature': sig,
                'detail': 'diff %r (encoding %r, line_endings %r): stats %r, expected %r' % (w['diff'], w.get('encoding'), w.get('line_endings'), st, exp)}
    return {'violated': False}
