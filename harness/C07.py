"""C07 -- length frames content: truncated / damaged files never yield altered sections."""
import z3

from sx.core import (Ctx, PathTimeout, conj, lift, mk_seq, model_bytes, seq_eq, sym_bytes)
from sx.instrument import value_eq
from sx.run import Ob, ok, skip, verdict, viol
from sx.streams import SymStream

REPLAY_TIMEOUT = 10
HANG_IS_VIOLATION = True

ASSUMPTIONS = [
    'intact files: three skeletons, each with one content section whose bytes are symbolic (free bytes followed by LF); '
    'paths on which the reader rejects the intact file are skipped (C03 decides well-formedness)',
    'truncation point: every byte position 0..len(file); length perturbation: +1..+3 beyond the data present on the '
    'last section, negative, non-numeric and int()-exotic tokens',
    'a length that is too short, or too long but still inside the file, is not claimed to be detected (the statement '
    'does not claim it)',
]

HEAD = b'#diffx: version=1.0, encoding=utf-8\n'          # (version first: a cut after it leaves a valid shorter header)


def skeleton(kind, content):
    """(bytes before the symbolic content, bytes after)"""
    n = len(content)
    if kind == 'preamble':
        return HEAD + b'#.preamble: indent=1, length=%d\n' % n, b'#.change: encoding=utf-8, x=12\n#..file: encoding=utf-8\n#...meta: length=3\n{}\n'
    if kind == 'diff':
        return (HEAD + b'#.change: y=100\n#..file: encoding=latin-1\n#...meta: length=3\n{}\n#...diff: length=%d\n' % n,
                b'#..file: encoding=utf-8, k=v1\n#...meta: length=14\n{"path": "b"}\n')
    if kind == 'last-diff':
        return HEAD + b'#.change:\n#..file:\n#...meta: length=3\n{}\n#...diff: length=%d\n' % n, b''
    if kind == 'diff-crlf':
        # every header line of the file ends in CRLF; the content is framed by length alone
        return ((HEAD + b'#.change: y=100\n#..file: encoding=latin-1\n#...meta: length=4\n{}\r\n#...diff: length=%d\n' % n).replace(b'\n', b'\r\n').replace(b'\r\r', b'\r'),
                b'#..file: k=v1\r\n#...meta: length=15\r\n{"path": "b"}\r\n')
    if kind == 'change-preamble':
        return (HEAD + b'#.change: encoding=utf-16-le\n#..preamble: encoding=latin-1, length=%d\n' % n,
                b'#..meta: encoding=utf-8, format=json, length=3\n{}\n#..file: encoding=ascii\n#...meta: length=3\n{}\n')
    raise ValueError(kind)


LAST_STREAM = [None]


def _read(data):
    from pydiffx.reader import DiffXReader
    from pydiffx.errors import DiffXParseError
    recs = []
    st = SymStream(data)
    LAST_STREAM[0] = st
    try:
        for r in DiffXReader(st):
            recs.append(r)
        return recs, None
    except DiffXParseError as e:
        return recs, e
    except PathTimeout:
        raise
    except Exception as e:
        return recs, e


def _rec_eq(a, b):
    cs = [value_eq(a.get(k), b.get(k)) for k in ('section', 'level', 'type', 'line')]
    cs.append(value_eq(dict(a['options'].items()), dict(b['options'].items())))
    for k in ('text', 'diff', 'metadata'):
        if (k in a) != (k in b):
            return False
        if k in a:
            cs.append(value_eq(a[k], b[k]))
    return conj(cs)


def _prefix_props(full, part, err):
    from pydiffx.errors import DiffXParseError
    props = []
    if err is not None and not isinstance(err, DiffXParseError):
        props.append(('raised:%s' % type(err).__name__, False))
    if len(part) > len(full):
        props.append(('more-records-than-intact-file', False))
        return props
    st = LAST_STREAM[0]
    declared = [r['options'].get('length') for r in part if 'length' in r['options']]
    short = any(req in declared and req != 96 for req, got in st.short_reads)
    if short and part:
        # the recorded known finding is: the bytes that *were* present for the section end with a newline
        # (possibly followed by indentation spaces that are stripped), so the trailing-newline check cannot see
        # the damage.  Anything else that alters a section is a different defect.
        raw = lift(st.value())
        el = raw.el
        k = len(el)
        ind = part[-1]['options'].get('indent', 0) if isinstance(part[-1]['options'].get('indent', 0), int) else 0
        j = 0
        while j < ind and k > 0 and isinstance(el[k - 1], int) and el[k - 1] == 32:
            k -= 1
            j += 1
        if k == 0 or not bool(lift(mk_seq(el[:k], bytes)).endswith(b'\n')):
            short = False
    for a, b in zip(part, full):
        # (a yielded section whose content read came back short is the recorded known finding;
        # anything else that alters a section is labelled separately so that it is replayed on its own)
        props.append(('short-read-accepted' if short else 'record-differs-from-intact-file', _rec_eq(a, b)))
    return props


def ob_truncate(ctx, kind, N):
    n = ctx.choose(1, N, 'n')
    body = sym_bytes(ctx, 'c', n - 1)
    content = mk_seq((tuple(body.el) if n > 1 else ()) + (10,), bytes)
    pre, post = skeleton(kind, content)
    F = mk_seq(tuple(pre) + tuple(lift(content).el) + tuple(post), bytes)
    full, err = _read(F)
    if err is not None:
        return skip('intact file rejected (not well-formed for this content)')
    L = len(lift(F).el)
    p = ctx.choose(0, L, 'cut')
    part_data = mk_seq(lift(F).el[:p], bytes)
    wit = lambda m: {'kind': 'truncate', 'file': model_bytes(m, F), 'cut': p}
    try:
        part, perr = _read(part_data)
    except PathTimeout:
        return viol('nontermination', wit(ctx.model()))
    return verdict(ctx, _prefix_props(full, part, perr), witness=wit,
                   sample=lambda m: dict(wit(m), records=len(part), error=type(perr).__name__ if perr else None))


def ob_truncate_text(ctx, encs):
    """a multi-line preamble in a multi-byte encoding, one symbolic character right after a newline: cuts inside that
    character (and everywhere else) must not yield an altered section"""
    from sx.core import sym_str
    enc = ctx.pick('encoding', encs)
    ch = sym_str(ctx, 'ch', 1)
    text = mk_seq(tuple(map(ord, 'ab\n')) + tuple(ch.el) + tuple(map(ord, 'c\n')), str)
    try:
        content = lift(text).encode(enc)
    except UnicodeEncodeError:
        return skip('character not encodable')
    bomless = {'utf-16': 'utf-16-le', 'utf-32': 'utf-32-le'}.get(enc, enc)
    n = len(content)
    pre = HEAD + b'#.preamble: encoding=%s, indent=0, length=%d\n' % (enc.encode(), n)
    post = b'#.change: x=12\n#..file:\n#...meta: length=3\n{}\n'
    F = mk_seq(tuple(pre) + tuple(lift(content).el) + tuple(post), bytes)
    full, err = _read(F)
    if err is not None:
        return skip('intact file rejected (not well-formed for this content)')
    lo = len(pre)
    p = ctx.choose(lo, lo + n, 'cut')
    part_data = mk_seq(lift(F).el[:p], bytes)
    wit = lambda m: {'kind': 'truncate', 'file': model_bytes(m, F), 'cut': p}
    try:
        part, perr = _read(part_data)
    except PathTimeout:
        return viol('nontermination', wit(ctx.model()))
    return verdict(ctx, _prefix_props(full, part, perr), witness=wit,
                   sample=lambda m: dict(wit(m), records=len(part), error=type(perr).__name__ if perr else None))


TOKENS = [b'-1', b'-0', b'abc', b'1.0', b'1_0', b'0x3', b'', b'-', b'1e1', b'07', b'007']


def ob_length(ctx, N):
    """declared length exceeding the data present (last section), negative, non-numeric"""
    n = ctx.choose(1, N, 'n')
    body = sym_bytes(ctx, 'c', n - 1)
    content = mk_seq((tuple(body.el) if n > 1 else ()) + (10,), bytes)
    pre, post = skeleton('last-diff', content)
    F = mk_seq(tuple(pre) + tuple(lift(content).el), bytes)
    full, err = _read(F)
    if err is not None:
        return skip('intact file rejected')
    mode = ctx.choose(0, 1, 'mode')
    if mode == 0:
        tok = b'%d' % (n + ctx.choose(1, 3, 'delta'))
    else:
        tok = ctx.pick('token', TOKENS)
    pre2 = pre[:pre.rindex(b'length=')] + b'length=' + tok + b'\n'
    G = mk_seq(tuple(pre2) + tuple(lift(content).el), bytes)
    wit = lambda m: {'kind': 'length', 'file': model_bytes(m, F), 'damaged': model_bytes(m, G), 'token': tok}
    try:
        part, perr = _read(G)
    except PathTimeout:
        return viol('nontermination', wit(ctx.model()))
    props = _prefix_props(full, part, perr)
    # the damaged section itself must not be yielded: its options differ from the intact file
    # (for int()-exotic tokens that denote the true length, e.g. 007, nothing differs)
    return verdict(ctx, props, witness=wit, sample=lambda m: dict(wit(m), records=len(part)))


def obligations(tier):
    quick = tier == 'quick'
    N = 3 if quick else 8
    obs = []
    for kind in ('preamble', 'diff', 'last-diff') + (() if quick else ('diff-crlf', 'change-preamble')):
        obs.append(Ob('truncate[%s]' % kind, ob_truncate, dict(kind=kind, N=N), must_reach=['DiffXReader._read_content'],
                      path_timeout=8, desc='real reader on F[:p] for every cut point p; F has a symbolic %s section; '
                      'records must be a prefix of the intact file\'s records, then end or DiffXParseError' % kind,
                      bounds={'content_len': [1, N], 'cut': 'every position'}))
    encs = ['utf-8', 'utf-16', 'utf-32-be'] if quick else ['utf-8', 'utf-8-sig', 'utf-16', 'utf-16-be', 'utf-32', 'utf-32-be', 'latin-1']
    obs.append(Ob('truncate[multibyte-text]', ob_truncate_text, dict(encs=encs), must_reach=['DiffXReader._read_content'],
                  path_timeout=8, desc='three-line preamble in %s with a symbolic character right after a newline, cut at every '
                  'position of the content (also inside a character)' % encs, bounds={'encodings': encs, 'cut': 'every content position'}))
    obs.append(Ob('length-perturbed', ob_length, dict(N=N), must_reach=['DiffXReader._read_content'], path_timeout=8,
                  desc='last section\'s length replaced by n+1..n+3, negative, non-numeric and exotic tokens',
                  bounds={'content_len': [1, N], 'tokens': len(TOKENS)}))
    return obs


def validate(tier):
    from sx import validate as V
    from pydiffx.reader import DiffXReader
    n = 0

    def run(d):
        recs, err = _read(d)
        return [[(r['section'], r.get('text'), r.get('diff')) for r in recs], type(err).__name__ if err else None]
    for kind in ('preamble', 'diff', 'last-diff', 'diff-crlf', 'change-preamble'):
        for c in (b'a\n', b' x\n', b'a\nb\n', b'\r\n'):
            pre, post = skeleton(kind, c)
            F = pre + c + post
            for p in (len(F), len(F) - 1, len(pre) + 1, len(pre), 5):
                n += V.check_same('reader on truncated file', run, F[:p])
    return n


class _Recording:
    """wraps a BytesIO and records reads that returned fewer bytes than asked"""

    def __init__(self, data):
        import io
        self._b = io.BytesIO(data)
        self.short = []

    def read(self, n=-1):
        d = self._b.read(n)
        if n is not None and n >= 0 and len(d) < n:
            self.short.append((n, len(d)))
        return d

    def seek(self, *a):
        return self._b.seek(*a)

    def tell(self):
        return self._b.tell()


def replay(ob, label, w):
    from pydiffx.reader import DiffXReader
    from pydiffx.errors import DiffXParseError
    F = w['file']
    G = F[:w['cut']] if w['kind'] == 'truncate' else w['damaged']

    def read(data):
        st = _Recording(data)
        recs = []
        try:
            for r in DiffXReader(st):
                recs.append({k: (dict(v) if k == 'options' else v) for k, v in r.items()})
            return recs, None, st
        except Exception as e:
            return recs, e, st
    full, err, _ = read(F)
    if err is not None:
        return {'violated': False, 'error': 'intact file rejected: %s' % err}
    part, perr, st = read(G)
    if perr is not None and not isinstance(perr, DiffXParseError):
        return {'violated': True, 'signature': 'framing:raised:%s' % type(perr).__name__, 'detail': '%r: %s' % (G, perr)}
    bad = None
    if len(part) > len(full):
        bad = 'more records than the intact file'
    else:
        for i, (a, b) in enumerate(zip(part, full)):
            if a != b:
                bad = 'record %d differs: %r vs intact %r' % (i, a, b)
                break
    if bad is None:
        return {'violated': False}
    # classify: a section was yielded although the stream returned fewer bytes than its declared length
    declared = [r['options'].get('length') for r in part if 'length' in r['options']]
    short_content = [s for s in st.short if s[0] in declared and s[0] != 96]
    # the bytes actually present for the short section = the tail of the input
    ind = part[-1]['options'].get('indent', 0) if part and isinstance(part[-1]['options'].get('indent', 0), int) else 0
    # ... measured in the section's own encoding: the newline (and the indentation spaces) of a UTF-16/32 section
    # are 2 / 4 bytes wide
    import codecs
    chain = []
    eff = None
    for r in part:
        lvl = r['level']
        own = r['options'].get('encoding')
        if r['section'] in ('diffx', '.change', '..file'):
            chain = chain[:lvl] + [own]
        else:
            eff = own if (own or r['type'] == 'diff') else next((e for e in reversed(chain[:lvl + 1]) if e), None)

    def enc_(t):
        try:
            b = t.encode(eff) if isinstance(eff, str) else t.encode('ascii')
        except (LookupError, UnicodeError):
            return t.encode('ascii')
        for bom in (codecs.BOM_UTF32_LE, codecs.BOM_UTF32_BE, codecs.BOM_UTF8, codecs.BOM_UTF16_LE, codecs.BOM_UTF16_BE):
            if b.startswith(bom) and len(b) > len(bom):
                return b[len(bom):]
        return b
    sp, nl = enc_(' '), enc_('\n')
    tail = G
    j = 0
    while j < ind and tail.endswith(sp):
        tail = tail[:-len(sp)]
        j += 1
    ends_nl = tail.endswith(nl) and (len(nl) == 1 or (len(tail) - len(nl)) >= 0)
    sig = 'short-read-accepted' if (short_content and ends_nl) else 'framing:altered-section'
    return {'violated': True, 'signature': sig, 'detail': '%s; input %r; short reads %r' % (bad, G, st.short)}
