"""C11 -- header lines are accepted iff they match the specification grammar."""
import z3

from sx import validate as V
from sx.core import (Ctx, SInt, SSeq, conj, disj, lift, mk_seq, model_bytes, neg, rng, sym_bytes, zbool)
from sx.instrument import SymDict, sym_int_of
from sx.regex import nfa_formula
from sx.run import Ob, ok, skip, verdict, viol
from sx.streams import SymStream

ASSUMPTIONS = [
    'header line = bytes up to the first LF; LF-terminated lines are assumed not to end in CR (that input is the '
    'CRLF-terminated line one byte shorter, which is explored separately)',
    'option tail / whole line bounded in length (see bounds); every byte value 0..255 allowed',
    'integer-valued option = -?[0-9]+; for other literals Python int() accepts (1_0) either rendering is tolerated',
]

IDS = ['diffx', '.preamble', '.meta', '.change', '..preamble', '..meta', '..file', '...meta', '...diff']
KEY = rb'[A-Za-z][A-Za-z0-9_-]*'
VAL = rb'[A-Za-z0-9/._-]+'
SPEC_TAIL = rb'(?: ' + KEY + b'=' + VAL + rb'(?:, ' + KEY + b'=' + VAL + rb')*)?'
SPEC_LINE = (rb'#(?:diffx|\.preamble|\.meta|\.change|\.\.preamble|\.\.meta|\.\.file|\.\.\.meta|\.\.\.diff):'
             + SPEC_TAIL)
PYINT = rb'[+-]?[0-9]+(?:_[0-9]+)*'


def _reader():
    import pydiffx.reader as R
    from pydiffx.errors import DiffXParseError
    return R, DiffXParseError


def _expected_options(tail):
    """independent split of an option tail (already known to be in the grammar
    on this path): SymDict key -> value text"""
    exp = SymDict()
    t = lift(tail)
    if not t.el:
        return exp
    body = lift(mk_seq(t.el[1:], bytes))
    for pair in body.split(b', '):
        pair = lift(pair)
        i = pair.find(b'=')
        exp[mk_seq(pair.el[:i], bytes)] = mk_seq(pair.el[i + 1:], bytes)
    return exp


def _value_props(got, vtext):
    """conditions tying a reported option value to its text"""
    vt = lift(vtext)
    ctx = Ctx.cur
    if ctx.branch(conj(rng(e, 48, 57) for e in vt.el)):
        exp = sym_int_of(vt)
        if not isinstance(got, int):        # SInt answers isinstance(int)
            return [('int-option-not-int', False)]
        return [('int-option-value', (SInt._z(got) == SInt._z(exp)))]
    if len(vt.el) > 1 and ctx.branch(conj([vt.el[0] == 45] + [rng(e, 48, 57) for e in vt.el[1:]])):
        exp = sym_int_of(lift(mk_seq(vt.el[1:], bytes)))
        if not isinstance(got, int):
            return [('int-option-not-int', False)]
        return [('int-option-value', (SInt._z(got) == -SInt._z(exp)))]
    if ctx.branch(nfa_formula(PYINT, vt.el)):
        return []       # tolerated either way (see ASSUMPTIONS)
    if isinstance(got, int) or not isinstance(got, str):
        return [('str-option-type', False)]
    if len(lift(got).el) != len(vt.el):
        return [('str-option-verbatim', False)]
    return [('str-option-verbatim', conj(a == b if not isinstance(a, int) or not isinstance(b, int) else a == b
                                          for a, b in zip([_w(x) for x in lift(got).el], [_w(x) for x in vt.el])))]


def _w(e):
    if isinstance(e, int):
        return e
    return z3.ZeroExt(32 - e.size(), e) if e.size() < 32 else e


def _run_header(ctx, line_el, crlf, spec_formula, tail, sid, witness_data):
    R, DiffXParseError = _reader()
    data = mk_seq(tuple(line_el) + ((13, 10) if crlf else (10,)), bytes)
    rd = R.DiffXReader(SymStream(data))
    wit = lambda m: {'data': model_bytes(m, data)}
    try:
        sec = rd._read_header(valid_sections=set(IDS))
        outcome = 'accept'
    except DiffXParseError as e:
        outcome = 'reject'
        err = e
    except Exception as e:
        m = ctx.model()
        return viol('raised:%s' % type(e).__name__, wit(m))
    if outcome == 'reject':
        props = [('rejected-but-in-grammar', neg(spec_formula))]
        ln = err.linenum
        props.append(('error-linenum', ln == 0 if isinstance(ln, int) else False))
        return verdict(ctx, props, witness=wit, sample=lambda m: {'line': model_bytes(m, data), 'outcome': 'reject'})
    if sec is None:
        return viol('eof-instead-of-header', wit(ctx.model()))
    props = [('accepted-but-not-in-grammar', spec_formula)]
    # first settle acceptance; only then look at the reported options
    r = ctx.check(z3.Not(zbool(spec_formula))) if not isinstance(spec_formula, bool) else (
        z3.unsat if spec_formula else z3.sat)
    if r != z3.unsat:
        return verdict(ctx, props, witness=wit)
    ctx.assume(zbool(spec_formula))
    if sid is not None:
        props.append(('section-id', sec['section'] == sid and sec['level'] == sid.count('.')
                      and sec['type'] == sid.lstrip('.') and sec['line'] == 0))
    opts = sec['options']
    exp = _expected_options(tail)
    if len(opts) != len(exp):
        props.append(('option-count', False))
    else:
        for k, vtext in exp.items():
            ks = lift(k)
            # keys are reported as str
            kstr = mk_seq([_w(e) for e in ks.el], str)
            if kstr not in opts:
                props.append(('option-missing', False))
                continue
            props.extend(_value_props(opts[kstr], vtext))
    return verdict(ctx, props, witness=wit,
                   sample=lambda m: {'line': model_bytes(m, data), 'outcome': 'accept'})


def ob_tail(ctx, sid, N, crlf):
    n = ctx.choose(0, N, 'len')
    tail = sym_bytes(ctx, 't', n)
    for e in lift(tail).el if n else ():
        ctx.assume(e != 10)
    if n and not crlf:
        ctx.assume(lift(tail).el[-1] != 13)
    head = b'#' + sid.encode() + b':'
    spec = nfa_formula(SPEC_TAIL, lift(tail).el if n else ())
    return _run_header(ctx, tuple(head) + (tuple(lift(tail).el) if n else ()), crlf, spec, tail, sid, None)


def ob_line(ctx, N, crlf):
    n = ctx.choose(0, N, 'len')
    line = sym_bytes(ctx, 'l', n)
    el = tuple(lift(line).el) if n else ()
    for e in el:
        ctx.assume(e != 10)
    if n and not crlf:
        ctx.assume(el[-1] != 13)
    if n == 0 or not Ctx.cur.branch(neg(conj(disj(e == w for w in (9, 11, 12, 13, 32)) for e in el))):
        # blank line: skipped by the reader as a separator, not a header
        return skip('blank line (separator, not in header position)')
    spec = nfa_formula(SPEC_LINE, el)
    # the tail (for the option oracle) starts after the first ':' -- only
    # meaningful on accepted paths, where the grammar fixes its position
    R, DiffXParseError = _reader()
    data = mk_seq(el + ((13, 10) if crlf else (10,)), bytes)
    rd = R.DiffXReader(SymStream(data))
    wit = lambda m: {'data': model_bytes(m, data)}
    try:
        sec = rd._read_header(valid_sections=set(IDS))
    except DiffXParseError as e:
        return verdict(ctx, [('rejected-but-in-grammar', neg(spec)),
                             ('error-linenum', e.linenum == 0 if isinstance(e.linenum, int) else False)],
                       witness=wit, sample=lambda m: {'line': model_bytes(m, data), 'outcome': 'reject'})
    except Exception as e:
        return viol('raised:%s' % type(e).__name__, wit(ctx.model()))
    if sec is None:
        return viol('eof-instead-of-header', wit(ctx.model()))
    return verdict(ctx, [('accepted-but-not-in-grammar', spec)], witness=wit,
                   sample=lambda m: {'line': model_bytes(m, data), 'outcome': 'accept'})


LONG_HEADERS = [
    b'#..meta: format=json, length=120, encoding=utf-8, x-one=1, x_two=value/with/slashes, Three=3.0, four=-4, five=a_b-c.d, '
    b'six=6, seven=seven, eight=8, nine=9, ten=0010',
    b'#...diff: length=12, type=text, line_endings=unix, a=1, a=2, length2=7, Length=9, encoding-hint=utf-16, zz=' + b'v' * 60,
    b'#diffx: version=1.0, encoding=utf-8, k=' + b'w' * 57,          # 96 bytes of text
    b'#diffx: version=1.0, encoding=utf-8, k=' + b'w' * 56,          # 95: an inserted byte makes it 96
    b'#.change: a=' + b'b' * 180,                                    # 192
    b'#.change: a=' + b'b' * 179,                                    # 191
]


def ob_long(ctx, hi, W, crlf=False):
    """long, many-option headers (duplicate keys, look-alike keys, lengths around the 96-byte read-ahead block) with a
    fully symbolic window of 1..W bytes replacing, or inserted at, every position of the option part"""
    base = LONG_HEADERS[hi]
    colon = base.index(b':') + 1
    mode = ctx.pick('mode', ['replace', 'insert'])
    p = ctx.pick('pos', list(range(colon, len(base) + (1 if mode == 'insert' else 0))))
    w = ctx.choose(1, W, 'w')
    win = sym_bytes(ctx, 'x', w)
    for e in win.el:
        ctx.assume(e != 10)
        if crlf:
            ctx.assume(e != 13)
    tail_after = base[p + w:] if mode == 'replace' else base[p:]
    line_el = tuple(base[:p]) + tuple(win.el) + tuple(tail_after)
    if isinstance(line_el[-1], int):
        if line_el[-1] == 13:
            return skip('line would end in CR')
    else:
        ctx.assume(line_el[-1] != 13)
    tail = mk_seq(line_el[colon:], bytes)
    spec = nfa_formula(SPEC_TAIL, lift(tail).el if len(tail) else ())
    sid = base[1:colon - 1].decode()
    return _run_header(ctx, line_el, crlf, spec, tail, sid, None)


def ob_public(ctx, N):
    """through the public iterator only: '#diffx: version=1.0' + tail"""
    from pydiffx.reader import DiffXReader
    from pydiffx.errors import DiffXParseError
    n = ctx.choose(0, N, 'len')
    tail = sym_bytes(ctx, 't', n)
    el = tuple(lift(tail).el) if n else ()
    for e in el:
        ctx.assume(e != 10)
    if n:
        ctx.assume(el[-1] != 13)
    data = mk_seq(tuple(b'#diffx: version=1.0') + el + (10,), bytes)
    spec = nfa_formula(rb'(?:, ' + KEY + b'=' + VAL + rb')*', el)
    # a later "version=" would override the first: exclude by assumption
    for i in range(max(0, n - 8)):
        ctx.assume(neg(lift(tail).at(tuple(b', version='), i)))
    wit = lambda m: {'data': model_bytes(m, data)}
    try:
        recs = list(DiffXReader(SymStream(data)))
    except DiffXParseError as e:
        return verdict(ctx, [('rejected-but-in-grammar', neg(spec))], witness=wit)
    except Exception as e:
        return viol('raised:%s' % type(e).__name__, wit(ctx.model()))
    return verdict(ctx, [('accepted-but-not-in-grammar', spec), ('one-record', len(recs) == 1)], witness=wit,
                   sample=lambda m: {'line': model_bytes(m, data), 'outcome': 'accept'})


def obligations(tier):
    import pydiffx.reader as R
    obs = []
    if not hasattr(R.DiffXReader, '_read_header'):
        obs.append(('skipped', 'tail/line', 'DiffXReader._read_header not found in the current source; '
                    'public-API obligation only'))
    else:
        NT = {'quick': (7, 4), 'thorough': (8, 6)}[tier]
        for i, sid in enumerate(IDS):
            N = NT[0] if sid == 'diffx' else NT[1]
            for crlf in (False, True):
                if crlf and sid not in ('diffx', '..meta'):
                    continue
                if crlf and sid == 'diffx':
                    N -= 1
                obs.append(Ob('tail[%s,%s]' % (sid, 'crlf' if crlf else 'lf'), ob_tail,
                              dict(sid=sid, N=N, crlf=crlf), must_reach=['DiffXReader._read_header'],
                              desc='real _read_header on "#%s:" + symbolic tail of 0..%d bytes (256 values each)' % (sid, N),
                              bounds={'tail_len': [0, N], 'newline': 'crlf' if crlf else 'lf'}))
        NL = 9 if tier == 'quick' else 11
        for crlf in (False, True):
            obs.append(Ob('line[%s]' % ('crlf' if crlf else 'lf'), ob_line, dict(N=NL - (2 if crlf else 0), crlf=crlf),
                          must_reach=['DiffXReader._read_header'],
                          desc='real _read_header on a fully symbolic line of 0..%d bytes' % NL,
                          bounds={'line_len': [0, NL]}))
        quick = tier == 'quick'
        for hi in ([0, 2, 3, 4] if quick else range(len(LONG_HEADERS))):
            W = 1 if quick else 2
            obs.append(Ob('long-header[%d]' % hi, ob_long, dict(hi=hi, W=W), must_reach=['DiffXReader._read_header'],
                          desc='%d-byte header with %d options (duplicates, look-alike keys, around the 96-byte block) '
                               'with a symbolic window of 1..%d bytes replacing / inserted at every position of the '
                               'option part' % (len(LONG_HEADERS[hi]), LONG_HEADERS[hi].count(b'='), W),
                          bounds={'header_len': len(LONG_HEADERS[hi]), 'window': [1, W]}))
        for hi in ([3, 5] if quick else [2, 3, 4, 5]):
            obs.append(Ob('long-header-crlf[%d]' % hi, ob_long, dict(hi=hi, W=1, crlf=True), must_reach=['DiffXReader._read_header'],
                          desc='%d-byte header terminated by CRLF (the CR / LF fall on either side of a block boundary) with a '
                               'symbolic byte replacing / inserted at every position' % len(LONG_HEADERS[hi]),
                          bounds={'header_len': len(LONG_HEADERS[hi]), 'window': 1, 'newline': 'crlf'}))
    NP = 6 if tier == 'quick' else 9
    obs.append(Ob('public[diffx]', ob_public, dict(N=NP), must_reach=['DiffXReader.iter_sections'],
                  desc='public iterator on "#diffx: version=1.0" + symbolic tail of 0..%d bytes' % NP,
                  bounds={'tail_len': [0, NP]}))
    return obs


HEADERS = LONG_HEADERS + [b'#diffx: version=1.0', b'#diffx: encoding=utf-8, version=1.0', b'#.change:', b'#..file:', b'#...diff: length=82',
           b'#..meta: length=100, my-option=value, another-option=another-value', b'#diffx::', b'.preamble', b'#.change',
           b'#....diff:', b'#diffx: 1.0', b'#..meta: option=100+', b'#..meta: option=value,option2=value',
           b'#..meta: option=value, option2=value:', b'#..meta: _option=value', b'#..meta: my-option = value',
           b'#.meta: format=json, length=1_0', b'#.meta: a=-5, b=/x/y', b'#diffx: k=\xc0', b'#diffx:  a=b', b'#diffx: a=b ',
           b'#diffx: a==b', b'#...diff: length=3, type=binary', b'#..file: a=b, a=c']


def validate(tier):
    import pydiffx.reader as R
    from sx.selftest import regex_patterns, all_strings
    n = 0
    from sx.selftest import loaded_patterns
    pats = [p for p in loaded_patterns('pydiffx.reader')]
    corpus = HEADERS + all_strings(b'a=, 1', 3) + [b'#diffx:' + t for t in all_strings(b'a=, ', 4)]
    n += regex_patterns(pats, corpus)

    def hdr(line):
        rd = R.DiffXReader(SymStream(line + b'\n'))
        return rd._read_header(valid_sections=set(IDS))
    if hasattr(R.DiffXReader, '_read_header'):
        for h in HEADERS:
            n += V.check_same('_read_header', hdr, h)
    return n


def replay(ob, label, w):
    import io
    import re
    from pydiffx.reader import DiffXReader
    from pydiffx.errors import DiffXParseError
    data = w['data']
    line = data[:-1]
    if line.endswith(b'\r'):
        line = line[:-1]
    public = ob.startswith('public')
    in_spec = re.fullmatch(SPEC_LINE, line) is not None
    try:
        if public:
            recs = list(DiffXReader(io.BytesIO(data)))
            sec = recs[0] if recs else None
        else:
            sec = DiffXReader(io.BytesIO(data))._read_header(valid_sections=set(IDS))
        outcome = 'accept'
    except DiffXParseError as e:
        outcome = 'reject'
        if e.linenum != 0:
            return {'violated': True, 'signature': 'header:error-linenum', 'detail': 'linenum %r' % e.linenum}
    except Exception as e:
        return {'violated': True, 'signature': 'header:raised:%s' % type(e).__name__,
                'detail': '%r -> %s: %s' % (data, type(e).__name__, e)}
    if outcome == 'accept' and sec is None:
        return {'violated': True, 'signature': 'header:eof', 'detail': repr(data)}
    if outcome == 'accept' and not in_spec:
        return {'violated': True, 'signature': 'header:accepted-not-in-grammar', 'detail': repr(data)}
    if outcome == 'reject' and in_spec:
        return {'violated': True, 'signature': 'header:rejected-in-grammar', 'detail': repr(data)}
    if outcome == 'accept':
        m = re.fullmatch(rb'#([.a-z]+):(?: (.*))?', line)
        exp = {}
        if m.group(2):
            for pair in m.group(2).split(b', '):
                k, v = pair.split(b'=', 1)
                v = v.decode()
                if re.fullmatch(r'-?[0-9]+', v):
                    v = int(v)
                exp[k.decode()] = v
        got = sec['options']
        for k, v in exp.items():
            g = got.get(k, None)
            if isinstance(v, str) and re.fullmatch(PYINT.decode(), v):
                continue
            if g != v or type(g) is not type(v):
                return {'violated': True, 'signature': 'header:options', 'detail': '%r: %r != %r' % (data, got, exp)}
        if set(got) != set(exp):
            return {'violated': True, 'signature': 'header:options', 'detail': '%r: %r != %r' % (data, got, exp)}
    return {'violated': False}
