"""Concolic validation of models and translation (DESIGN 2.6): run a piece of
real code twice -- natively on concrete inputs, and under the engine with
symbolic inputs *pinned* to the same values -- and require the same result."""
import z3

from . import core
from .core import Ctx, SSeq, SInt, concretize_value, lift


class Mismatch(AssertionError):
    pass


def pin_bytes(ctx, name, value):
    if not value:
        return value
    s = core.sym_bytes(ctx, name, len(value))
    for e, v in zip(s.el, value):
        ctx.assume(e == v)
    return s


def pin_str(ctx, name, value):
    if not value:
        return value
    s = core.sym_str(ctx, name, len(value))
    for e, v in zip(s.el, value):
        ctx.assume(e == ord(v))
    return s


def pin_int(ctx, name, value):
    v = z3.Int(name)
    ctx.assume(v == value)
    return SInt(v)


def pin(ctx, name, value):
    if isinstance(value, bytes):
        return pin_bytes(ctx, name, value)
    if isinstance(value, str):
        return pin_str(ctx, name, value)
    return value


def run_pinned(fn, *args, pin_ints=False, **kw):
    """run fn under the engine with bytes/str arguments replaced by pinned
    symbolic values; returns ('ok', concretised result) or ('exc', type name)"""
    ctx = Ctx(())
    ctx.want_sample = False
    Ctx.cur = ctx
    try:
        pa = [pin(ctx, 'a%d' % i, a) for i, a in enumerate(args)]
        pk = {k: pin(ctx, 'k_%s' % k, v) for k, v in kw.items()}
        try:
            r = fn(*pa, **pk)
            if hasattr(r, '__next__'):
                r = list(r)
        except (core.PathAbort, core.Unmodelled, core.OutOfBound, core.SolverUnknown) as e:
            return ('engine:%s' % type(e).__name__, str(e))
        except Exception as e:
            return ('exc', type(e).__name__)
        if ctx.pending:
            return ('engine:forked', 'pinned run forked: %d pending' % len(ctx.pending))
        m = ctx.model()
        if m is None:
            return ('engine:infeasible', '')
        return ('ok', concretize_value(m, r))
    finally:
        Ctx.cur = None


def run_native(fn, *args, **kw):
    try:
        r = fn(*args, **kw)
        if hasattr(r, '__next__'):
            r = list(r)
        return ('ok', r)
    except Exception as e:
        return ('exc', type(e).__name__)


def same(a, b):
    if a[0] != b[0]:
        return False
    if a[0] == 'exc':
        return a[1] == b[1]
    x, y = _plain(a[1]), _plain(b[1])
    return x == y or (isinstance(x, float) and isinstance(y, float) and x != x and y != y)


def _plain(v):
    if isinstance(v, dict):
        return {k: _plain(x) for k, x in v.items()}
    if isinstance(v, (list, tuple)):
        return [_plain(x) for x in v]
    return v


def check_same(what, fn, *args, **kw):
    a = run_native(fn, *args, **kw)
    b = run_pinned(fn, *args, **kw)
    if not same(a, b):
        raise Mismatch('%s: native %r != engine %r on args %r %r' % (what, a, b, args, kw))
    return 1
