"""Regular expressions over length-concrete symbolic sequences.

(1) `SPattern`: a model of a compiled `re` pattern.  The *real* pattern text and
    flags are read from the compiled object; it is parsed with CPython's own
    `re._parser` and executed by a continuation-passing backtracking matcher
    that mirrors CPython's priority order item by item; every character test
    is a solver decision (a fork of the symbolic execution).
(2) `nfa_formula`: membership of a whole element list in a regular language as
    one Boolean formula (Thompson NFA + dynamic programming); used for
    oracle-side grammars.

Unsupported constructs raise `Unmodelled` (inconclusive, never a verdict).
"""
import re as _re
import re._constants as sc
import re._parser as sp

import z3

from .core import (_br, Ctx, SSeq, Unmodelled, conj, disj, el_eq, lift, mk_seq, neg, rng)

WS = (9, 10, 11, 12, 13, 32)
WS_STR_EXTRA = (0x1c, 0x1d, 0x1e, 0x1f, 0x85, 0xa0, 0x1680, 0x2000, 0x2001, 0x2002, 0x2003, 0x2004,
                0x2005, 0x2006, 0x2007, 0x2008, 0x2009, 0x200a, 0x2028, 0x2029, 0x202f, 0x205f, 0x3000)


def _category(av, c, is_str, ascii_flag):
    uni = is_str and not ascii_flag
    if av in (sc.CATEGORY_SPACE, sc.CATEGORY_NOT_SPACE):
        r = disj([el_eq(c, w) for w in WS] + ([el_eq(c, w) for w in WS_STR_EXTRA] if uni else []))
        return neg(r) if av is sc.CATEGORY_NOT_SPACE else r
    if av in (sc.CATEGORY_DIGIT, sc.CATEGORY_NOT_DIGIT):
        if uni:
            # Unicode digits beyond ASCII: only decided for ASCII-range elements
            if isinstance(c, int):
                r = chr(c).isdigit() if c < 0x110000 else False
                # \d is Nd only
                import unicodedata
                r = unicodedata.category(chr(c)) == 'Nd'
            else:
                if _br(z3.UGE(c, 128)):
                    raise Unmodelled('\\d on non-ASCII symbolic str element')
                r = rng(c, 48, 57)
        else:
            r = rng(c, 48, 57)
        return neg(r) if av is sc.CATEGORY_NOT_DIGIT else r
    if av in (sc.CATEGORY_WORD, sc.CATEGORY_NOT_WORD):
        if uni and not isinstance(c, int):
            if _br(z3.UGE(c, 128)):
                raise Unmodelled('\\w on non-ASCII symbolic str element')
        if uni and isinstance(c, int) and c >= 128:
            r = chr(c).isalnum() or c == 95
        else:
            r = disj([rng(c, 48, 57), rng(c, 65, 90), rng(c, 97, 122), el_eq(c, 95)])
        return neg(r) if av is sc.CATEGORY_NOT_WORD else r
    raise Unmodelled('regex category %s' % (av,))


def pred_in(items, c, flags, is_str):
    """condition: element c is in the character class described by items"""
    if flags & _re.IGNORECASE:
        raise Unmodelled('regex IGNORECASE')
    negate = False
    parts = []
    af = bool(flags & _re.ASCII)
    for op, av in items:
        if op is sc.NEGATE:
            negate = True
        elif op is sc.LITERAL:
            parts.append(el_eq(c, av))
        elif op is sc.RANGE:
            parts.append(rng(c, av[0], av[1]))
        elif op is sc.CATEGORY:
            parts.append(_category(av, c, is_str, af))
        else:
            raise Unmodelled('regex class item %s' % (op,))
    r = disj(parts)
    return neg(r) if negate else r


_cond_cache = {}


def single_cond(op, av, c, flags, is_str):
    """condition: element c matches the single-width item (op, av); cached per
    (item, element) -- the parsed trees are kept alive by their Matcher / NFA
    cache, and z3 hash-conses element terms, so ids are stable"""
    if isinstance(c, int) or (is_str and op is sc.IN and any(o is sc.CATEGORY for o, _ in av)):
        return _single_cond(op, av, c, flags, is_str)     # (Unicode categories may fork: not cached)
    key = (op, id(av) if op is sc.IN else av, flags, c.get_id())
    r = _cond_cache.get(key)
    if r is None:
        r = _single_cond(op, av, c, flags, is_str)
        if len(_cond_cache) > 200000:
            _cond_cache.clear()
        _cond_cache[key] = (r, av, c)
        return r
    return r[0]


def _single_cond(op, av, c, flags, is_str):
    if flags & _re.IGNORECASE:
        raise Unmodelled('regex IGNORECASE')
    if op is sc.LITERAL:
        return el_eq(c, av)
    if op is sc.NOT_LITERAL:
        return neg(el_eq(c, av))
    if op is sc.ANY:
        return True if flags & _re.DOTALL else neg(el_eq(c, 10))
    if op is sc.IN:
        return pred_in(av, c, flags, is_str)
    raise Unmodelled('regex op %s' % (op,))


SINGLE = (sc.LITERAL, sc.NOT_LITERAL, sc.ANY, sc.IN)


class BacktrackBudget(Exception):
    """the mirrored backtracking search made more steps than the budget the caller set (STEP_BUDGET)"""


STEPS = [0]            # calls of Matcher.m since the caller last reset it: one per regex node attempted, the unit in
STEP_BUDGET = [None]   # which sre's backtracking search grows as well


class Matcher:
    def __init__(self, pattern, flags):
        self.flags = flags
        self.is_str = isinstance(pattern, str)
        try:
            self.tree = list(sp.parse(pattern, flags))
        except Exception as e:           # pragma: no cover
            raise Unmodelled('regex parse: %s' % e)
        # flags set inline are folded into the parsed state
        self.flags = flags

    def m(self, items, el, pos, groups, k, endpos=None):
        STEPS[0] += 1
        if STEP_BUDGET[0] is not None and STEPS[0] > STEP_BUDGET[0]:
            raise BacktrackBudget(STEPS[0])
        if not items:
            return k(pos, groups)
        (op, av), rest = items[0], items[1:]
        n = len(el) if endpos is None else endpos
        br = _br
        if op in SINGLE:
            if pos >= n:
                return None
            if br(single_cond(op, av, el[pos], self.flags, self.is_str)):
                return self.m(rest, el, pos + 1, groups, k, endpos)
            return None
        if op is sc.AT:
            if av is sc.AT_BEGINNING:
                ok = True if pos == 0 else (el_eq(el[pos - 1], 10) if self.flags & _re.MULTILINE else False)
            elif av is sc.AT_BEGINNING_STRING:
                ok = pos == 0
            elif av is sc.AT_END:
                if self.flags & _re.MULTILINE:
                    ok = True if pos == n else el_eq(el[pos], 10)
                else:
                    ok = True if pos == n else (el_eq(el[pos], 10) if pos == n - 1 else False)
            elif av is sc.AT_END_STRING:
                ok = pos == n
            else:
                raise Unmodelled('regex anchor %s' % (av,))
            if br(ok):
                return self.m(rest, el, pos, groups, k, endpos)
            return None
        if op is sc.SUBPATTERN:
            gid, add_flags, del_flags, sub = av
            if add_flags or del_flags:
                raise Unmodelled('regex scoped flags')

            def k2(p2, g2):
                if gid is not None:
                    g2 = dict(g2)
                    g2[gid] = (pos, p2)
                return self.m(rest, el, p2, g2, k, endpos)
            return self.m(list(sub), el, pos, groups, k2, endpos)
        if op is sc.BRANCH:
            for alt in av[1]:
                r = self.m(list(alt) + rest, el, pos, groups, k, endpos)
                if r is not None:
                    return r
            return None
        if op in (sc.ASSERT, sc.ASSERT_NOT):
            direction, sub = av
            if direction != 1:
                raise Unmodelled('regex look-behind')
            r = self.m(list(sub), el, pos, groups, lambda p2, g2: (p2, g2), endpos)
            if op is sc.ASSERT:
                if r is None:
                    return None
                return self.m(rest, el, pos, r[1], k, endpos)
            if r is not None:
                return None
            return self.m(rest, el, pos, groups, k, endpos)
        if op in (sc.MAX_REPEAT, sc.MIN_REPEAT):
            lo, hi, sub = av
            sub = list(sub)
            greedy = op is sc.MAX_REPEAT

            def rep(count, p, g, last):
                # mirrors SRE_OP_MAX_UNTIL / MIN_UNTIL: below the minimum the
                # body must match; above it another iteration is attempted only
                # if the previous iteration started somewhere else (last_ptr)
                def more():
                    if count >= lo:
                        if hi is not sc.MAXREPEAT and count >= hi:
                            return None
                        if p == last:
                            return None
                    return self.m(sub, el, p, g, lambda p2, g2: rep(count + 1, p2, g2, p), endpos)

                def stop():
                    if count < lo:
                        return None
                    return self.m(rest, el, p, g, k, endpos)
                for f in ((more, stop) if greedy else (stop, more)):
                    r = f()
                    if r is not None:
                        return r
                return None
            return rep(0, pos, groups, -1)
        raise Unmodelled('regex op %s' % (op,))


class SMatch:
    def __init__(self, pat, s, el, kind, start, end, groups, pos, endpos):
        self.re = pat
        self.string = s
        self._el, self._kind, self._s, self._e, self._g = el, kind, start, end, groups
        self.pos, self.endpos = pos, endpos
        self._names = dict(pat.groupindex)
        self._n = pat.groups
        idx = [i for i in groups if groups[i] is not None]
        self.lastindex = max(idx) if idx else None   # approximation (outermost last closed); unused by pydiffx

    def _idx(self, k):
        if isinstance(k, str):
            if k not in self._names:
                raise IndexError('no such group')
            return self._names[k]
        if not 0 <= k <= self._n:
            raise IndexError('no such group')
        return k

    def group(self, *ks):
        if not ks:
            ks = (0,)
        out = []
        for k in ks:
            k = self._idx(k)
            if k == 0:
                out.append(mk_seq(self._el[self._s:self._e], self._kind))
            elif k not in self._g:
                out.append(None)
            else:
                a, b = self._g[k]
                out.append(mk_seq(self._el[a:b], self._kind))
        return out[0] if len(out) == 1 else tuple(out)

    __getitem__ = group

    def groups(self, default=None):
        return tuple(self.group(i) if i in self._g else default for i in range(1, self._n + 1))

    def groupdict(self, default=None):
        return {nm: (self.group(i) if i in self._g else default) for nm, i in self._names.items()}

    def start(self, k=0):
        k = self._idx(k)
        return self._s if k == 0 else self._g.get(k, (-1, -1))[0]

    def end(self, k=0):
        k = self._idx(k)
        return self._e if k == 0 else self._g.get(k, (-1, -1))[1]

    def span(self, k=0):
        return (self.start(k), self.end(k))


class SPattern:
    """model of a compiled pattern; native `re` whenever the subject is concrete"""

    def __init__(self, real):
        self.real = real
        self.pattern = real.pattern
        self.flags = real.flags
        self.groupindex = real.groupindex
        self.groups = real.groups
        self.kind = bytes if isinstance(real.pattern, bytes) else str
        self._mt = None

    @property
    def mt(self):
        if self._mt is None:
            self._mt = Matcher(self.real.pattern, self.real.flags)
        return self._mt

    def _check_kind(self, s):
        if s.kind is not self.kind:
            raise TypeError('cannot use a %s pattern on a %s-like object' % (
                self.kind.__name__, s.kind.__name__))

    def _at(self, s, pos, endpos, full=False):
        el = s.el
        n = len(el) if endpos is None else min(endpos, len(el))

        def done(p, g):
            if full and p != n:
                return None
            return (p, g)
        r = self.mt.m(self.mt.tree, el, pos, {}, done, n)
        if r is None:
            return None
        return SMatch(self, s, el, self.kind, pos, r[0], r[1], pos, n)

    def match(self, s, pos=0, endpos=None):
        if not isinstance(s, SSeq):
            return self.real.match(s, pos) if endpos is None else self.real.match(s, pos, endpos)
        self._check_kind(s)
        return self._at(s, pos, endpos)

    def fullmatch(self, s, pos=0, endpos=None):
        if not isinstance(s, SSeq):
            return self.real.fullmatch(s, pos) if endpos is None else self.real.fullmatch(s, pos, endpos)
        self._check_kind(s)
        return self._at(s, pos, endpos, full=True)

    def search(self, s, pos=0, endpos=None):
        if not isinstance(s, SSeq):
            return self.real.search(s, pos) if endpos is None else self.real.search(s, pos, endpos)
        self._check_kind(s)
        n = len(s.el) if endpos is None else min(endpos, len(s.el))
        for p in range(pos, n + 1):
            m = self._at(s, p, endpos)
            if m is not None:
                return m
        return None

    def finditer(self, s, pos=0, endpos=None):
        if not isinstance(s, SSeq):
            yield from self.real.finditer(s, pos) if endpos is None else self.real.finditer(s, pos, endpos)
            return
        self._check_kind(s)
        n = len(s.el) if endpos is None else min(endpos, len(s.el))
        # CPython's iteration: the next search starts where the previous match
        # ended; if that match was empty, a match *at the start position* must
        # be non-empty (state->must_advance)
        start = pos
        must_advance = False
        while True:
            found = None
            for q in range(start, n + 1):
                m = self._at_ex(s, q, n, must_advance and q == start)
                if m is not None:
                    found = m
                    break
            if found is None:
                return
            yield found
            must_advance = found.end() == found.start()
            start = found.end()

    def _at_ex(self, s, pos, n, reject_empty):
        el = s.el

        def done(p, g):
            if reject_empty and p == pos:
                return None
            return (p, g)
        r = self.mt.m(self.mt.tree, el, pos, {}, done, n)
        if r is None:
            return None
        return SMatch(self, s, el, self.kind, pos, r[0], r[1], pos, n)

    def _template(self, repl):
        """replacement template -> list of literal element tuples / group numbers (CPython's own parser)"""
        rl = lift(repl)
        if any(not isinstance(e, int) for e in rl.el):
            if any(isinstance(e, int) and e == 92 for e in rl.el):
                raise Unmodelled('re.sub template with backslash and symbolic parts')
            return [tuple(rl.el)]
        import re._parser as P
        conc = bytes(rl.el) if self.kind is bytes else ''.join(map(chr, rl.el))
        out = []
        for item in P.parse_template(conc, self.real):
            if isinstance(item, int):
                out.append(item)
            elif item:
                out.append(tuple(item) if self.kind is bytes else tuple(map(ord, item)))
        return out

    def subn(self, repl, s, count=0):
        if not isinstance(s, SSeq) and not isinstance(repl, SSeq):
            if not callable(repl):
                return self.real.subn(repl, s, count)
        s = lift(s)
        self._check_kind(s)
        tmpl = None if callable(repl) else self._template(repl)
        out = ()
        last = 0
        k = 0
        for m in self.finditer(s):
            out += s.el[last:m.start()]
            if tmpl is None:
                r = repl(m)
                if not isinstance(r, (SSeq, bytes, str)):
                    raise TypeError('expected str or bytes-like replacement, got %s' % type(r).__name__)
                out += tuple(lift(r).el) if len(r) else ()
            else:
                for item in tmpl:
                    if isinstance(item, int):
                        g = m.group(item)
                        if g is not None and len(g):
                            out += tuple(lift(g).el)
                    else:
                        out += item
            last = m.end()
            k += 1
            if count and k >= count:
                break
        out += s.el[last:]
        return mk_seq(out, self.kind), k

    def sub(self, repl, s, count=0):
        if not isinstance(s, SSeq) and not isinstance(repl, SSeq) and not callable(repl):
            return self.real.sub(repl, s, count)
        if not isinstance(s, SSeq) and callable(repl):
            # concrete subject: the callback may still return symbolic data
            pass
        return self.subn(repl, s, count)[0]

    def split(self, s, maxsplit=0):
        if not isinstance(s, SSeq):
            return self.real.split(s, maxsplit)
        self._check_kind(s)
        out = []
        last = 0
        n = 0
        for m in self.finditer(s):
            if maxsplit and n >= maxsplit:
                break
            out.append(mk_seq(s.el[last:m.start()], self.kind))
            out.extend(m.groups())
            last = m.end()
            n += 1
        out.append(mk_seq(s.el[last:], self.kind))
        return out

    def findall(self, s, pos=0, endpos=None):
        if not isinstance(s, SSeq):
            return self.real.findall(s, pos, *(() if endpos is None else (endpos,)))
        empty = mk_seq((), self.kind)
        out = []
        for m in self.finditer(s, pos, endpos):
            if self.real.groups == 0:
                out.append(m.group())
            elif self.real.groups == 1:
                out.append(m.groups(empty)[0])
            else:
                out.append(m.groups(empty))
        return out


# ------------------------------------------------------------------ NFA formula

class NFA:
    def __init__(self):
        self.n = 0
        self.eps = {}
        self.tr = {}

    def new(self):
        self.n += 1
        self.eps[self.n - 1] = []
        self.tr[self.n - 1] = []
        return self.n - 1


def _build(nfa, seq, start, flags, is_str):
    cur = start
    for op, av in seq:
        if op in SINGLE:
            nx = nfa.new()
            nfa.tr[cur].append(((op, av), nx))
            cur = nx
        elif op is sc.SUBPATTERN:
            cur = _build(nfa, av[3], cur, flags, is_str)
        elif op is sc.BRANCH:
            end = nfa.new()
            for alt in av[1]:
                s = nfa.new()
                nfa.eps[cur].append(s)
                e = _build(nfa, alt, s, flags, is_str)
                nfa.eps[e].append(end)
            cur = end
        elif op in (sc.MAX_REPEAT, sc.MIN_REPEAT):
            lo, hi, sub = av
            for _ in range(lo):
                cur = _build(nfa, sub, cur, flags, is_str)
            if hi is sc.MAXREPEAT:
                s = nfa.new()
                nfa.eps[cur].append(s)
                e = _build(nfa, sub, s, flags, is_str)
                nfa.eps[e].append(s)
                end = nfa.new()
                nfa.eps[s].append(end)
                cur = end
            else:
                end = nfa.new()
                nfa.eps[cur].append(end)
                for _ in range(hi - lo):
                    cur = _build(nfa, sub, cur, flags, is_str)
                    nfa.eps[cur].append(end)
                cur = end
        else:
            raise Unmodelled('nfa: regex op %s' % (op,))
    return cur


def _or(a, b):
    if a is True or b is True:
        return True
    if a is False:
        return b
    if b is False:
        return a
    return z3.Or(a, b)


def _and(a, b):
    if a is False or b is False:
        return False
    if a is True:
        return b
    if b is True:
        return a
    return z3.And(a, b)


def _closure(nfa, act):
    out = dict(act)
    work = list(act)
    while work:
        q = work.pop()
        for r in nfa.eps[q]:
            old = out.get(r, False)
            new = _or(old, out[q])
            if not isinstance(new, bool):
                new = z3.simplify(new)
                if z3.is_true(new):
                    new = True
            same = (new is old) or (not isinstance(new, bool) and not isinstance(old, bool) and new.eq(old))
            if not same:
                out[r] = new
                work.append(r)
    return out


_nfa_cache = {}


def nfa_formula(pattern, chars, flags=0):
    """formula: the element list `chars` (all of it) is in L(pattern); pattern is
    a regular pattern text without anchors/groups-with-semantics"""
    key = (pattern, flags)
    if key not in _nfa_cache:
        is_str = isinstance(pattern, str)
        tree = list(sp.parse(pattern, flags))
        nfa = NFA()
        s = nfa.new()
        e = _build(nfa, tree, s, flags, is_str)
        _nfa_cache[key] = (nfa, s, e, is_str)
    nfa, s, e, is_str = _nfa_cache[key]
    act = _closure(nfa, {s: True})
    for c in chars:
        nxt = {}
        for q, cond in act.items():
            for (op, av), r in nfa.tr[q]:
                t = _and(cond, single_cond(op, av, c, flags, is_str))
                if t is False:
                    continue
                nxt[r] = _or(nxt.get(r, False), t)
        act = _closure(nfa, nxt)
        if not act:
            return False
    return act.get(e, False)


def in_language(pattern, seq, flags=0):
    return nfa_formula(pattern, lift(seq).el if not isinstance(seq, (tuple, list)) else seq, flags)
