"""Exploration driver: all feasible paths of an obligation, 16-way parallel by
decision prefix; verdict helpers; outcome aggregation."""
import multiprocessing as mp
import os
import queue as _queue
import time
import traceback

import z3

from . import core
import signal

from .core import (Ctx, OutOfBound, PathAbort, PathTimeout, SolverUnknown, Stats, Unmodelled, conj, neg, zbool)

NWORKERS = int(os.environ.get('SX_WORKERS', '16'))


class Ob:
    """one proof obligation: `fn(ctx, **params)` is run once per feasible path
    and returns an outcome dict (see ok/viol/skip)"""

    def __init__(self, name, fn, params=None, must_reach=(), max_paths=2000000, max_wall=3600,
                 desc='', bounds=None, stubs=(), allow_cut=False, path_timeout=60, may_decline=False):
        self.name = name
        self.fn = fn
        self.params = params or {}
        self.must_reach = tuple(must_reach)
        self.max_paths = max_paths
        self.max_wall = max_wall
        self.desc = desc
        self.bounds = bounds or {}
        self.stubs = list(stubs)
        self.path_timeout = path_timeout
        # an obligation built on an abstraction that only models some idioms: if the current source uses
        # operations outside it (Unmodelled on a path) and no path found a violation, the obligation is recorded as
        # 'declined' (not applicable to this source) instead of making the run inconclusive -- the byte-level
        # obligations of the same check decide
        self.may_decline = may_decline
        self.allow_cut = allow_cut      # OutOfBound paths are a stated bound, not a failure


# ------------------------------------------------------------------ outcomes

def ok(**kw):
    d = {'k': 'ok'}
    d.update(kw)
    return d


def skip(why):
    return {'k': 'skip', 'why': why}


def viol(label, witness, **kw):
    d = {'k': 'viol', 'label': label, 'w': witness}
    d.update(kw)
    return d


WSAMPLES = int(os.environ.get('SX_SELFTEST_SAMPLES', '3'))
DUMP_DIR = os.environ.get('SX_DUMP_DIR')          # set by the driver: sampled end-of-path queries for the second solvers
DUMP_EVERY = int(os.environ.get('SX_DUMP_EVERY', '97'))
_dump_count = [0]


def _dump_query(ctx, negated, answer):
    """write path condition + negated property as SMT-LIB2 (sampled)"""
    if not DUMP_DIR:
        return
    _dump_count[0] += 1
    if _dump_count[0] > 3 and _dump_count[0] % DUMP_EVERY:
        return
    try:
        s = z3.Solver()
        s.add(ctx.solver.assertions())
        if negated is not None:
            s.add(negated)
        txt = s.to_smt2().replace('ubv_to_int', 'bv2nat')
        name = '%d-%d-%s.smt2' % (os.getpid(), _dump_count[0], answer)
        with open(os.path.join(DUMP_DIR, name), 'w') as f:
            f.write('(set-logic ALL)\n' + txt)
    except Exception:
        pass


def verdict(ctx, props, witness=None, sample=None):
    """props: list of (label, condition).  Discharges `path condition =>
    conj(props)`; on `sat` builds the witness from the model."""
    conds = []
    for label, c in props:
        if isinstance(c, core.SBool):
            c = c.e
        conds.append((label, c))
    c = conj(x for _, x in conds)
    if c is True:
        out = {'k': 'ok', 'trivial': True}
        if ctx.want_sample:
            m = ctx.model()
            if m is not None:
                if sample is not None:
                    out['sample'] = sample(m)
                if witness is not None:
                    out['wsample'] = _safe(witness, m)
        return out
    if c is False:
        r = ctx.check()
        _dump_query(ctx, None, str(r))
    else:
        r = ctx.check(z3.Not(c))
        _dump_query(ctx, z3.Not(c), str(r))
    if r == z3.unsat:
        out = {'k': 'ok'}
        if ctx.want_sample:
            m = ctx.model()
            if m is not None:
                if sample is not None:
                    out['sample'] = sample(m)
                if witness is not None:
                    out['wsample'] = _safe(witness, m)
        return out
    if r == z3.unknown:
        return {'k': 'unknown', 'why': 'end-of-path query'}
    m = ctx.model_cache
    bad = None
    for label, x in conds:
        if x is True:
            continue
        if x is False or z3.is_false(m.eval(x, True)):
            bad = label
            break
    w = witness(m) if witness is not None else {}
    out = {'k': 'viol', 'label': bad or 'property', 'w': w}
    if isinstance(w, dict) and 'prio' in w:
        out['prio'] = w.pop('prio')
    return out


def _safe(fn, m):
    try:
        return fn(m)
    except Exception:
        return None


# ------------------------------------------------------------------ one path

def run_path(ob, prefix, want_sample=False):
    ctx = Ctx(prefix)
    ctx.want_sample = want_sample
    Ctx.cur = ctx
    try:
        signal.setitimer(signal.ITIMER_PROF, ob.path_timeout)
        out = ob.fn(ctx, **ob.params)
        signal.setitimer(signal.ITIMER_PROF, 0)
        if out is None:
            out = {'k': 'harness-error', 'why': 'harness returned None'}
    except PathAbort:
        out = {'k': 'abort'}
    except Unmodelled as e:
        out = {'k': 'unmodelled', 'why': str(e)[:200]}
    except OutOfBound as e:
        out = {'k': 'cut', 'why': str(e)[:200]}
    except PathTimeout:
        out = {'k': 'timeout', 'why': 'path did not finish within %ss of CPU time' % ob.path_timeout}
    except SolverUnknown:
        out = {'k': 'unknown', 'why': 'branch decision'}
    except RecursionError:
        out = {'k': 'harness-error', 'why': 'RecursionError'}
    except Exception:
        out = {'k': 'harness-error', 'why': traceback.format_exc()[-900:]}
    finally:
        signal.setitimer(signal.ITIMER_PROF, 0)
        Ctx.cur = None
    if ctx.flags:
        out['flags'] = sorted(ctx.flags)
    out['choices'] = ctx.choices
    Stats.paths += 1
    return out, ctx.pending, len(ctx.decisions)


class Agg:
    """aggregated result of exploring one obligation"""

    def __init__(self, name):
        self.name = name
        self.counts = {}
        self.viols = []
        self.samples = []
        self.errors = []
        self.unmodelled = {}
        self.flags = {}
        self.paths = 0
        self.decisions = 0
        self.queries = 0
        self.solver_s = 0.0
        self.unknown = 0
        self.reached = set()
        self.cut = False
        self.wall = 0.0
        self.skips = {}
        self.cuts = {}
        self.stopped_early = 0
        self.wsamples = []

    def add(self, out, ndec):
        k = out['k']
        self.counts[k] = self.counts.get(k, 0) + 1
        self.paths += 1
        self.decisions += ndec
        if k == 'viol':
            if len(self.viols) < 400:
                self.viols.append(out)
        elif k in ('harness-error',):
            if len(self.errors) < 5:
                self.errors.append(out.get('why', ''))
        elif k == 'cut':
            self.cuts[out.get('why', '')] = self.cuts.get(out.get('why', ''), 0) + 1
        elif k == 'unmodelled' or k == 'unknown' or k == 'timeout':
            w = k + ':' + out.get('why', '')
            self.unmodelled[w] = self.unmodelled.get(w, 0) + 1
        elif k == 'skip':
            self.skips[out.get('why', '')] = self.skips.get(out.get('why', ''), 0) + 1
        for f in out.get('flags', ()):
            self.flags[f] = self.flags.get(f, 0) + 1
        if 'sample' in out and len(self.samples) < 6:
            self.samples.append({'choices': out.get('choices'), 'instance': out['sample']})
        if out.get('wsample') is not None and len(self.wsamples) < WSAMPLES:
            self.wsamples.append(out['wsample'])

    def merge(self, o):
        for k, v in o.counts.items():
            self.counts[k] = self.counts.get(k, 0) + v
        self.viols.extend(o.viols[:max(0, 400 - len(self.viols))])
        self.samples.extend(o.samples[:max(0, 6 - len(self.samples))])
        self.wsamples.extend(o.wsamples[:max(0, WSAMPLES - len(self.wsamples))])
        self.errors.extend(o.errors[:max(0, 5 - len(self.errors))])
        for d, od in ((self.unmodelled, o.unmodelled), (self.flags, o.flags), (self.skips, o.skips), (self.cuts, o.cuts)):
            for k, v in od.items():
                d[k] = d.get(k, 0) + v
        self.paths += o.paths
        self.decisions += o.decisions
        self.queries += o.queries
        self.solver_s += o.solver_s
        self.unknown += o.unknown
        self.reached |= o.reached


def _explore_local(ob, stack, budget_s, budget_paths):
    agg = Agg(ob.name)
    t0 = time.time()
    s0 = Stats.snapshot()
    core.REACHED.clear()
    n = 0
    while stack:
        prefix = stack.pop()
        out, pending, ndec = run_path(ob, prefix, want_sample=(n == 0 or (WSAMPLES > 3 and n % 7 == 0)))
        agg.add(out, ndec)
        stack.extend(pending)
        n += 1
        if n >= budget_paths or time.time() - t0 > budget_s:
            break
        if agg.counts.get('timeout', 0) >= 2 or agg.counts.get('viol', 0) >= 40:
            break
    s1 = Stats.snapshot()
    agg.queries = s1['queries'] - s0['queries']
    agg.solver_s = s1['solver_s'] - s0['solver_s']
    agg.unknown = s1['unknown'] - s0['unknown']
    agg.reached = set(core.REACHED)
    return agg, stack


def _on_alarm(signum, frame):
    raise PathTimeout()


def _worker(obs, tq, rq):
    signal.signal(signal.SIGPROF, _on_alarm)
    try:
        import resource
        resource.setrlimit(resource.RLIMIT_CORE, (0, 0))
    except Exception:
        pass
    import sys
    sys.setrecursionlimit(400000)
    while True:
        item = tq.get()
        if item is None:
            return
        oi, prefixes, budget_s = item
        try:
            agg, left = _explore_local(obs[oi], list(prefixes), budget_s, 100000)
            rq.put((oi, agg, left))
        except BaseException:
            a = Agg(obs[oi].name)
            a.errors.append('worker crash: ' + traceback.format_exc()[-1500:])
            a.counts['harness-error'] = 1
            rq.put((oi, a, []))


def explore_all(obs, log=None, serial=False):
    """explore every obligation to exhaustion (or its stated limit).  Returns
    {name: Agg}."""
    results = {ob.name: Agg(ob.name) for ob in obs}
    if serial or NWORKERS <= 1:
        signal.signal(signal.SIGPROF, _on_alarm)
        for ob in obs:
            t0 = time.time()
            agg, left = _explore_local(ob, [[]], ob.max_wall, ob.max_paths)
            agg.cut = bool(left)
            agg.wall = time.time() - t0
            results[ob.name] = agg
        return results
    ctxm = mp.get_context('fork')
    tq = ctxm.Queue()
    rq = ctxm.Queue()
    procs = [ctxm.Process(target=_worker, args=(obs, tq, rq), daemon=True) for _ in range(NWORKERS)]
    for p in procs:
        p.start()
    try:
        for oi, ob in enumerate(obs):
            t0 = time.time()
            agg = results[ob.name]
            work = [[]]
            inflight = 0
            budget = 0.3
            while work or inflight:
                # hand out work: shallow prefixes first (bigger subtrees)
                while work and inflight < NWORKERS:
                    if len(work) >= 4 * NWORKERS:
                        n = max(1, len(work) // (4 * NWORKERS))
                    else:
                        n = 1
                    batch, work = work[:n], work[n:]
                    # short budgets while there is not enough queued work to keep
                    # every worker busy (the leftover stack comes back and is
                    # redistributed); long ones once the queue is deep
                    tq.put((oi, batch, 0.25 if len(work) < 2 * NWORKERS else 2.0))
                    inflight += 1
                try:
                    roi, a, left = rq.get(timeout=600)
                except _queue.Empty:
                    agg.errors.append('worker timeout (600 s without a result)')
                    agg.counts['harness-error'] = agg.counts.get('harness-error', 0) + 1
                    agg.cut = True
                    work = []
                    break
                inflight -= 1
                agg.merge(a)
                work.extend(left)
                if agg.paths >= ob.max_paths or time.time() - t0 > ob.max_wall:
                    agg.cut = True
                    agg.unmodelled['cut:limit paths=%d wall=%ds' % (ob.max_paths, ob.max_wall)] = len(work)
                    work = []
                    # drain
                    while inflight:
                        roi, a, left = rq.get(timeout=600)
                        inflight -= 1
                        agg.merge(a)
                    break
                if agg.counts.get('harness-error', 0) >= 3:
                    work = []
                if work and (agg.counts.get('viol', 0) >= 60 or agg.counts.get('timeout', 0) >= 6):
                    # the verdict for this obligation is already decided (violations) or
                    # cannot be reached (hangs): do not burn the budget on the rest
                    agg.stopped_early = len(work)
                    work = []
            agg.wall = time.time() - t0
            if log:
                log('  %-28s paths=%d %s wall=%.1fs solver=%.1fs q=%d' % (
                    ob.name, agg.paths, dict(sorted(agg.counts.items())), agg.wall, agg.solver_s,
                    agg.queries))
    finally:
        for p in procs:
            tq.put(None)
        for p in procs:
            p.join(timeout=5)
            if p.is_alive():
                p.terminate()
    return results
