"""Interval-abstract stream (pure LIA): the stream is D[0:T) with symbolic
length T, start position pos0 and first-delimiter position d; chunks are
intervals [a, b) with Int bounds.  Used for C17, where the *block size* is a
symbolic integer, so one run covers every block size and alignment."""
import os

import z3

from .core import Ctx, OutOfBound, SInt, Unmodelled, mkb, mki


def _zi(x):
    return x.e if isinstance(x, SInt) else z3.IntVal(int(x))


class AbsBytes:
    """D[a:b) of one underlying abstract stream"""

    def __init__(self, st, a, b):
        self.st, self.a, self.b = st, a, b

    @property
    def __class__(self):
        return bytes

    def slen(self):
        return mki(self.b - self.a)

    def __len__(self):
        raise Unmodelled('len() of abstract bytes outside the instrumented code')

    def __bool__(self):
        return Ctx.cur.branch(self.b - self.a != 0)

    def find(self, c):
        if c != self.st.delim:
            raise Unmodelled('find of another delimiter on the abstract stream')
        nx = self.st.next_at(self.a)
        return mki(z3.If(z3.And(nx != -1, nx < self.b), nx - self.a, -1))

    def index(self, c):
        i = self.find(c)
        if bool(i == -1):
            raise ValueError('subsection not found')
        return i

    def __getitem__(self, k):
        if not isinstance(k, slice) or k.step is not None:
            raise Unmodelled('indexing of abstract bytes')
        n = self.b - self.a

        def norm(i, dflt):
            if i is None:
                return dflt
            i = _zi(i)
            return z3.If(i < 0, z3.If(i + n < 0, 0, i + n), z3.If(i > n, n, i))
        s, e = norm(k.start, z3.IntVal(0)), norm(k.stop, n)
        return AbsBytes(self.st, z3.simplify(self.a + s), z3.simplify(self.a + z3.If(e > s, e, s)))


    def __add__(self, o):
        return AbsParts([self]) + o

    def __radd__(self, o):
        return AbsParts([]).__radd__(o) + self


class AbsStream:
    def __init__(self, ctx, delim, max_reads):
        self.T = z3.Int('T')
        self.pos0 = z3.Int('pos0')
        self.d = z3.Int('d')
        self.delim = delim
        ctx.assume(self.T >= 0)
        ctx.assume(self.pos0 >= 0)
        ctx.assume(self.pos0 <= self.T)
        ctx.assume(z3.Or(self.d == -1, z3.And(self.d >= self.pos0, self.d < self.T)))
        self.pos = self.pos0
        self.ctx = ctx
        self.nreads = 0
        self.max_reads = max_reads
        self.nfresh = 0
        self.ops = []

    def next_at(self, a):
        """first delimiter position >= a (or -1); tied to d for a in [pos0, d]"""
        self.nfresh += 1
        f = z3.Int('next!%d' % self.nfresh)
        self.ctx.assume(z3.Or(f == -1, z3.And(f >= a, f < self.T)))
        self.ctx.assume(z3.Implies(z3.And(a >= self.pos0, z3.Or(self.d == -1, a <= self.d)), f == self.d))
        return f

    def read(self, n=-1):
        self.nreads += 1
        if self.nreads > self.max_reads:
            raise OutOfBound('more than %d reads for one delimiter search' % self.max_reads)
        n = _zi(n)
        avail = z3.If(self.T > self.pos, self.T - self.pos, 0)
        take = z3.If(z3.Or(n < 0, n > avail), avail, n)
        out = AbsBytes(self, self.pos, z3.simplify(self.pos + take))
        self.pos = out.b
        self.ops.append('read')
        return out

    def seek(self, off, whence=0):
        off = _zi(off)
        if whence == os.SEEK_CUR:
            self.pos = z3.simplify(z3.If(self.pos + off < 0, 0, self.pos + off))
        elif whence == os.SEEK_SET:
            self.pos = off
        else:
            raise Unmodelled('seek whence=%r on the abstract stream' % (whence,))
        self.ops.append('seek')
        return mki(self.pos)

    def tell(self):
        return mki(self.pos)


class AccIO:
    """accumulator standing for io.BytesIO inside the code under test"""

    def __init__(self, *a):
        self.parts = []
        self.closed = False

    def write(self, b):
        if not isinstance(b, AbsBytes):
            raise Unmodelled('write of non-abstract bytes into the accumulator')
        self.parts.append(b)

    def getvalue(self):
        return AbsParts(list(self.parts))

    def tell(self):
        tot = z3.IntVal(0)
        for p in self.parts:
            tot = tot + (p.b - p.a)
        return mki(z3.simplify(tot))

    def close(self):
        self.closed = True

    def __enter__(self):
        return self

    def __exit__(self, *a):
        self.close()


class AbsParts:
    """concatenation of abstract chunks"""

    def __init__(self, parts):
        self.parts = parts

    def slen(self):
        tot = z3.IntVal(0)
        for p in self.parts:
            tot = tot + (p.b - p.a)
        return mki(z3.simplify(tot))

    @property
    def __class__(self):
        return bytes

    def __add__(self, o):
        if isinstance(o, AbsParts):
            return AbsParts(self.parts + o.parts)
        if isinstance(o, AbsBytes):
            return AbsParts(self.parts + [o])
        if type(o) is bytes and not o:
            return self
        raise Unmodelled('concatenation of abstract and concrete bytes')

    def __radd__(self, o):
        if type(o) is bytes and not o:
            return self
        raise Unmodelled('concatenation of abstract and concrete bytes')
