"""Concolic self-validation of the engine's models against native CPython
(DESIGN 2.6).  Each function returns the number of agreeing concrete runs and
raises AssertionError on the first disagreement."""
import io
import itertools
import re
import sys

import z3

from . import core, codecs_model
from .core import Ctx, SSeq, lift, concretize_value
from .regex import SPattern, nfa_formula
from .streams import SymStream
from .validate import Mismatch, pin, run_native, run_pinned, same


def _cmp(what, native_fn, engine_fn, *args):
    a = run_native(native_fn, *args)
    b = run_pinned(engine_fn, *args)
    if b[0] == 'engine:Unmodelled' or (b[0] == 'ok' and type(b[1]).__name__ == 'OpaqueStr'):
        return 0          # the model declines (inconclusive by design), never a wrong answer
    if not same(a, b):
        raise Mismatch('%s%r: native %r != engine %r' % (what, args, a, b))
    return 1


def seq_methods():
    n = 0
    B = [b'', b'a', b'\n', b'a\nb', b'\r\n', b' a ', b'ab\r\nab', b'\x00\xff', b'  ', b'a=b, c=d', b'\t x\n', b'a\rb\r\n\nc', b'\r\r\n', b'x\r']
    subs = [b'a', b'\n', b'\r\n', b'ab', b', ', b'=', b' ']
    for s in B:
        for sub in subs:
            n += _cmp('find', lambda x, y: x.find(y), lambda x, y: lift(x).find(y), s, sub)
            n += _cmp('split', lambda x, y: x.split(y), lambda x, y: lift(x).split(y), s, sub)
            n += _cmp('split1', lambda x, y: x.split(y, 1), lambda x, y: lift(x).split(y, 1), s, sub)
            n += _cmp('startswith', lambda x, y: x.startswith(y), lambda x, y: bool(lift(x).startswith(y)), s, sub)
            n += _cmp('endswith', lambda x, y: x.endswith(y), lambda x, y: bool(lift(x).endswith(y)), s, sub)
            n += _cmp('count', lambda x, y: x.count(y), lambda x, y: lift(x).count(y), s, sub)
            n += _cmp('in', lambda x, y: y in x, lambda x, y: y in lift(x), s, sub)
            n += _cmp('replace', lambda x, y: x.replace(y, b'Z'), lambda x, y: lift(x).replace(y, b'Z'), s, sub)
            n += _cmp('rfind', lambda x, y: x.rfind(y), lambda x, y: lift(x).rfind(y), s, sub)
            n += _cmp('partition', lambda x, y: list(x.partition(y)), lambda x, y: list(lift(x).partition(y)), s, sub)
            for st, en in [(0, None), (1, None), (0, 2), (1, 3), (-2, None), (0, -1), (2, 1), (len(s) + 1, None), (len(s), None), (-9, 9)]:
                n += _cmp('startswith/se', lambda x, y, a, b: x.startswith(y, a, b), lambda x, y, a, b: bool(lift(x).startswith(y, a, b)), s, sub, st, en)
                n += _cmp('endswith/se', lambda x, y, a, b: x.endswith(y, a, b), lambda x, y, a, b: bool(lift(x).endswith(y, a, b)), s, sub, st, en)
                n += _cmp('find/se', lambda x, y, a, b: x.find(y, a, b), lambda x, y, a, b: lift(x).find(y, a, b), s, sub, st, en)
                n += _cmp('rfind/se', lambda x, y, a, b: x.rfind(y, a, b), lambda x, y, a, b: lift(x).rfind(y, a, b), s, sub, st, en)
                n += _cmp('count/se', lambda x, y, a, b: x.count(y, a, b), lambda x, y, a, b: lift(x).count(y, a, b), s, sub, st, en)
            n += _cmp('startswith/tuple', lambda x, y: x.startswith((y, b'\r')), lambda x, y: bool(lift(x).startswith((y, b'\r'))), s, sub)
            n += _cmp('endswith/tuple', lambda x, y: x.endswith((y, b'\r')), lambda x, y: bool(lift(x).endswith((y, b'\r'))), s, sub)
        for st, en in [(0, None), (1, None), (0, 2), (len(s) + 1, None), (len(s), None)]:
            n += _cmp('startswith/empty', lambda x, a, b: x.startswith(b'', a, b), lambda x, a, b: bool(lift(x).startswith(b'', a, b)), s, st, en)
            n += _cmp('endswith/empty', lambda x, a, b: x.endswith(b'', a, b), lambda x, a, b: bool(lift(x).endswith(b'', a, b)), s, st, en)
            n += _cmp('find/empty', lambda x, a, b: x.find(b'', a, b), lambda x, a, b: lift(x).find(b'', a, b), s, st, en)
            n += _cmp('rfind/empty', lambda x, a, b: x.rfind(b'', a, b), lambda x, a, b: lift(x).rfind(b'', a, b), s, st, en)
            n += _cmp('count/empty', lambda x, a, b: x.count(b'', a, b), lambda x, a, b: lift(x).count(b'', a, b), s, st, en)
        n += _cmp('splitlines', lambda x: x.splitlines(), lambda x: lift(x).splitlines() if len(x) else [], s)
        n += _cmp('splitlinesK', lambda x: x.splitlines(True), lambda x: lift(x).splitlines(True) if len(x) else [], s)
        n += _cmp('rsplit1', lambda x: x.rsplit(b'a', 1), lambda x: lift(x).rsplit(b'a', 1), s)
        n += _cmp('rpartition', lambda x: list(x.rpartition(b'\n')), lambda x: list(lift(x).rpartition(b'\n')), s)
        n += _cmp('strip', lambda x: x.strip(), lambda x: lift(x).strip(), s)
        n += _cmp('lstrip', lambda x: x.lstrip(), lambda x: lift(x).lstrip(), s)
        n += _cmp('rstrip', lambda x: x.rstrip(), lambda x: lift(x).rstrip(), s)
        n += _cmp('lower', lambda x: x.lower(), lambda x: lift(x).lower(), s)
        n += _cmp('upper', lambda x: x.upper(), lambda x: lift(x).upper(), s)
        n += _cmp('isdigit', lambda x: x.isdigit(), lambda x: bool(lift(x).isdigit()), s)
        n += _cmp('slice', lambda x: x[1:-1], lambda x: lift(x)[1:-1], s)
        n += _cmp('eq', lambda x: x == b'a\nb', lambda x: bool(lift(x) == b'a\nb'), s)
    S = ['', 'a', '\n', 'a\nb', ' a ', ' x', 'A-b_C', 'é']
    for s in S:
        n += _cmp('s.strip', lambda x: x.strip(), lambda x: lift(x).strip(), s)
        n += _cmp('s.find', lambda x: x.find('\n'), lambda x: lift(x).find('\n'), s)
        n += _cmp('s.split', lambda x: x.split('\n'), lambda x: lift(x).split('\n'), s)
        n += _cmp('s.splitlines', lambda x: x.splitlines(True), lambda x: lift(x).splitlines(True) if len(x) else [], s)
    from .instrument import h_fstr, h_format
    for s in S:
        for k in (0, 7, -3):
            n += _cmp('fstr', lambda x, y: f'a={x!s} b={x} k={y} {y:d}|', lambda x, y: h_fstr(
                ['a=', (lift(x) if x else x, 's', ''), ' b=', (lift(x) if x else x, None, ''), ' k=', (y, None, ''), ' ', (y, None, 'd'), '|']), s, k)
            n += _cmp('format', lambda x, y: '{}={!s} {k}{{}}'.format(x, x, k=y), lambda x, y: h_format('{}={!s} {k}{{}}', (lift(x) if x else x, x), {'k': y}), s, k)
    return n


INT_LITS = [b'0', b'12', b'007', b'-1', b'+3', b'1_0', b' 5', b'5 ', b'1__0', b'_1', b'1_', b'a', b'1.0', b'',
            b'1a', b'--1', b'\t7\n', b'0x1', b'1e3', b'+', b'99']


def int_model():
    from .instrument import sym_int_of
    n = 0
    for big in (b'1' * 4300, b'1' * 4301, b'0' * 5000):
        # the int-max-str-digits limit (concrete elements in the shadow type; pinning 4300 symbolic digits is pointless)
        def eng(x):
            Ctx.cur = Ctx(())
            try:
                return sym_int_of(lift(x))
            finally:
                Ctx.cur = None
        a, b = run_native(lambda: int(big)), run_native(lambda: eng(big))
        if not same(a, b):
            raise Mismatch('int(%d digits): native %r != engine %r' % (len(big), a[0], b[0]))
        n += 1
    for lit in INT_LITS:
        n += _cmp('int(bytes)', lambda x: int(x), lambda x: sym_int_of(lift(x)) if len(x) else int(x), lit)
        s = lit.decode()
        n += _cmp('int(str)', lambda x: int(x), lambda x: sym_int_of(lift(x)) if len(x) else int(x), s)
    return n


def _match_info(m, ngroups):
    if m is None:
        return None
    return [m.start(), m.end()] + [list(m.span(i)) for i in range(1, ngroups + 1)]


def regex_patterns(patterns, corpus):
    """patterns: list of compiled real patterns; corpus: list of subjects of the
    right kind.  Compares match / search / sub('') / finditer spans."""
    n = 0
    for real in patterns:
        sp_ = SPattern(real)
        kind = bytes if isinstance(real.pattern, bytes) else str
        for s in corpus:
            if not isinstance(s, kind):
                continue
            ng = real.groups
            n += _cmp('match %r' % (real.pattern,), lambda x: _match_info(real.match(x), ng),
                      lambda x: _match_info(sp_.match(lift(x)) if len(x) else sp_.match(x), ng), s)
            n += _cmp('search %r' % (real.pattern,), lambda x: _match_info(real.search(x), ng),
                      lambda x: _match_info(sp_.search(lift(x)) if len(x) else sp_.search(x), ng), s)
            rep = b'<>' if kind is bytes else '<>'
            n += _cmp('sub %r' % (real.pattern,), lambda x: real.sub(rep, x),
                      lambda x: sp_.sub(rep, lift(x)) if len(x) else sp_.sub(rep, x), s)
            n += _cmp('split %r' % (real.pattern,), lambda x: real.split(x), lambda x: sp_.split(lift(x)) if len(x) else sp_.split(x), s)
            n += _cmp('split2 %r' % (real.pattern,), lambda x: real.split(x, 2), lambda x: sp_.split(lift(x), 2) if len(x) else sp_.split(x, 2), s)
            n += _cmp('findall %r' % (real.pattern,), lambda x: real.findall(x), lambda x: sp_.findall(lift(x)) if len(x) else sp_.findall(x), s)
            if real.groups >= 1:
                tm = b'[\\1|\\g<1>]\\\\' if kind is bytes else '[\\1|\\g<1>]\\\\'
                n += _cmp('sub-template %r' % (real.pattern,), lambda x: real.subn(tm, x),
                          lambda x: sp_.subn(tm, lift(x)) if len(x) else real.subn(tm, x), s)
            n += _cmp('sub-callable %r' % (real.pattern,), lambda x: real.sub(lambda m: m.group(0)[:1] + rep, x, 2),
                      lambda x: sp_.sub(lambda m: m.group(0)[:1] + rep, lift(x), 2) if len(x) else real.sub(lambda m: m.group(0)[:1] + rep, x, 2), s)
            n += _cmp('finditer %r' % (real.pattern,), lambda x: [list(m.span()) for m in real.finditer(x)],
                      lambda x: [list(m.span()) for m in (sp_.finditer(lift(x)) if len(x) else sp_.finditer(x))], s)
    return n


GENERIC_CORPUS = [b'', b'\n', b'#diffx: version=1.0', b'#diffx: encoding=utf-8, version=1.0\n', b'#.change:', b'#..file:\r\n',
                  b'#...diff: length=82, line_endings=unix', b'#..meta: format=json, length=100', b'#.preamble: indent=2\n',
                  b'length=12', b'a=b, c=d', b'a=b,c=d', b'key', b'=v', b'my-option', b'_opt', b'9a', b'a/b_c.d-e', b'x y',
                  b'@@ -1,2 +3,4 @@', b'@@ -1 +1 @@ ctx', b'@@ -0,0 +1 @@\n', b'@@ -a,b +c,d @@', b'@@@ -1,2 -1,2 +1,3 @@@',
                  b'--- a/f\n+++ b/f\n', b'\\ No newline at end of file', b' ctx', b'+add', b'-del', b'  indented\n  more\n',
                  b'   ', b' \n \n', b'\r\n', b'a\r\nb\r\n', b'\xef\xbb\xbfx', b'\xff\xfe#\x00', b'0', b'-12', b'1_0', b'+5',
                  b'delta 12\n', b'literal 3\n', b'Binary files a and b differ\n', b'#....x:', b'#diffx:', b'#diffx::', b'.preamble']


def loaded_patterns(prefix='pydiffx'):
    """every compiled pattern (SPattern) that the instrumented modules of the package hold at module or class level
    in the *current* source -- found by reflection, not by name"""
    out = []
    seen = set()
    for name, mod in list(sys.modules.items()):
        if mod is None or not (name == prefix or name.startswith(prefix + '.')) or '.tests' in name:
            continue
        holders = [mod] + [v for v in vars(mod).values() if isinstance(v, type) and getattr(v, '__module__', None) == name]
        for h in holders:
            for k, v in list(vars(h).items()):
                if isinstance(v, SPattern) and id(v) not in seen:
                    seen.add(id(v))
                    out.append(v.real)
    return out


def validate_loaded_patterns(prefix='pydiffx'):
    pats = loaded_patterns(prefix)
    corpus = GENERIC_CORPUS + [x.decode('latin-1') for x in GENERIC_CORPUS]
    return regex_patterns(pats, corpus)


def all_strings(alphabet, maxlen, kind=bytes):
    out = []
    for k in range(0, maxlen + 1):
        for t in itertools.product(alphabet, repeat=k):
            out.append(bytes(t) if kind is bytes else ''.join(t))
    return out


GENERIC_PATTERNS = [
    rb'^ {1,2}', rb'^ {1,4}', rb'a*', rb'a*?', rb'(a|ab)(c|bcd)(d*)', rb'(a+)+b', rb'x*', rb'(?:a|b)*c', rb'^a$',
    rb'a$', rb'(?m)^a$', rb'(?s).+?b', rb'[^=\s,]+=[^\s,]+', rb'\d+(,\d+)?', rb'(?=a)a|b', rb'(?!a).', rb'a{2,3}?',
    rb'(a*)*', rb'(a?)*b', rb'\Aa\Z',
]


def regex_generic():
    pats = [re.compile(p) for p in GENERIC_PATTERNS]
    corpus = all_strings(b'ab \n', 4) + [b'abcd', b'aabcd', b'a=b, c=d', b'12,3', b'  x', b'     y', b'aaa', b'ba\n']
    n = regex_patterns(pats, corpus)
    spats = [re.compile(p) for p in [r'(#(?:diffx|\.change|\.\.file):)(?:( )([^\n]*))?(\n)', r'.*\n', r'(.+?|\Z)(?=#\.{1,3}[a-z]|\Z)',
                                      r'\.\.\.\n', r'(?ms)^a$.', r'\s+', r'\w+']]
    scorpus = all_strings('a#.\n', 4, str) + ['#diffx: x=1\n', '#.change:\n#..file:\n', 'a b c', '#..meta: l=1\n{}\n#..file:\n']
    n += regex_patterns(spats, scorpus)
    return n


def nfa_vs_re():
    """NFA formula membership == re.fullmatch on a corpus"""
    n = 0
    pats = [rb'[A-Za-z][A-Za-z0-9_-]*', rb'[A-Za-z0-9/._-]+', rb'(?: [a-z]+=[a-z0-9]+(?:, [a-z]+=[a-z0-9]+)*)?',
            rb'#\.{0,3}(?:diffx|meta):', rb'[ \t]*[+-]?[0-9]+(?:_[0-9]+)*[ \t]*']
    corpus = all_strings(b'a1 ,=_', 4) + [b' a=1', b' a=1, b=2', b' a=1,b=2', b'#..meta:', b'#....meta:', b'#diffx:', b'+1_0 ', b'1__0']
    for p in pats:
        rp = re.compile(p)
        for s in corpus:
            exp = rp.fullmatch(s) is not None
            ctx = Ctx(())
            Ctx.cur = ctx
            try:
                ps = pin(ctx, 's', s)
                f = nfa_formula(p, lift(ps).el if len(s) else ())
                if isinstance(f, bool):
                    got = f
                else:
                    got = ctx.check(f) == z3.sat
            finally:
                Ctx.cur = None
            if got != exp:
                raise Mismatch('nfa %r on %r: %r != %r' % (p, s, got, exp))
            n += 1
    return n


CODECS = ['ascii', 'latin-1', 'utf-8', 'utf-8-sig', 'utf-16', 'utf-16-le', 'utf-16-be', 'utf-32', 'utf-32-le',
          'utf-32-be', 'UTF-16', 'utf_8', 'U16', 'utf8', 'latin1', 'iso-8859-1']


def codecs():
    n = 0
    texts = ['', 'a', '\n', '\r\n', 'hi\n', 'é', '€', '\U0001f600', '\ud800', '\udfff', '﻿', '￾',
             'a﻿b', '\x80', '\xff', 'Ā', 'a\U0010ffffb', '\x00']
    for enc in CODECS:
        for t in texts:
            n += _cmp('encode[%s]' % enc, lambda x: x.encode(enc), lambda x: codecs_model.encode(x, enc), t)
    blobs = [b'', b'a', b'\n', b'\xff\xfe', b'\xfe\xff', b'\xff\xfea\x00', b'\xfe\xff\x00a', b'a\x00', b'\x00a',
             b'\xef\xbb\xbf', b'\xef\xbb\xbfa', b'\xc3\xa9', b'\xc3', b'\xe2\x82\xac', b'\xed\xa0\x80', b'\xf0\x9f\x98\x80',
             b'\xf4\x90\x80\x80', b'\xc0\x80', b'\x80', b'\x00\xd8', b'\x00\xd8\x00\xdc', b'\xd8\x00\xdc\x00', b'\x00\xdc',
             b'a\x00\x00\x00', b'\x00\x00\x00a', b'\xff\xfe\x00\x00a\x00\x00\x00', b'\x00\x00\xfe\xff\x00\x00\x00a',
             b'\x00\xd8\x00\x00', b'\x00\x00\x11\x00', b'\x00\x00\x11', b'abc', b'\xe0\x80\x80', b'\xf0\x80\x80\x80',
             b'\xff\xfe\x00\xd8', b'\x0a\x00', b'\x0d\x00\x0a\x00']
    for enc in CODECS:
        for b in blobs:
            n += _cmp('decode[%s]' % enc, lambda x: x.decode(enc), lambda x: codecs_model.decode(x, enc), b)
    # every single byte / selected 2-byte combos for the utf-8 decoder
    for b0 in range(256):
        n += _cmp('decode1', lambda x: x.decode('utf-8'), lambda x: codecs_model.decode(x, 'utf-8'), bytes([b0]))
        for b1 in (0x00, 0x7f, 0x80, 0x9f, 0xa0, 0xbf, 0xc0):
            n += _cmp('decode2', lambda x: x.decode('utf-8'), lambda x: codecs_model.decode(x, 'utf-8'), bytes([b0, b1]))
    for cp in [0, 0x7f, 0x80, 0x7ff, 0x800, 0xd7ff, 0xd800, 0xdfff, 0xe000, 0xffff, 0x10000, 0x10ffff, 0xfeff, 0xfffe]:
        for enc in ['utf-8', 'utf-16', 'utf-16-be', 'utf-32', 'utf-32-be', 'latin-1', 'ascii', 'utf-8-sig']:
            n += _cmp('encode-cp[%s]' % enc, lambda x: x.encode(enc), lambda x: codecs_model.encode(x, enc), chr(cp))
    for enc in CODECS:
        for h in ('ignore', 'replace', 'backslashreplace', 'xmlcharrefreplace'):
            for t in ['', 'a', 'é', 'aé€b', '\U0001f600', '\ud800x', 'x\udfff', 'Āÿ\x80\x7f', '\ufeff']:
                n += _cmp('encode[%s,%s]' % (enc, h), lambda x: x.encode(enc, h), lambda x: codecs_model.encode(lift(x) if x else x, enc, h), t)
    # incremental decoders: every split of each blob into two / three feeds, with and without final=True
    import codecs as _c
    from .codecs_model import SymIncrementalDecoder

    def feed(mk, parts, final):
        d = mk()
        out = []
        for i, p in enumerate(parts):
            out.append(d.decode(p, final and i == len(parts) - 1))
        return out
    inc_blobs = [b'', b'a', b'\xc3\xa9', b'a\xe2\x82\xacb', b'\xf0\x9f\x98\x80', b'\xef\xbb\xbfa', b'\xff\xfea\x00', b'\xfe\xff\x00a',
                 b'a\x00b\x00', b'\x3d\xd8\x00\xde', b'\xd8\x3d\xde\x00', b'\xff\xfe\x00\x00a\x00\x00\x00', b'a\x00\x00\x00',
                 b'\x00\x00\x00a', b'\xe0\x80', b'\xed\xa0\x80', b'\xc3', b'\x80', b'\xf4\x90', b'a\n\xc3', b'\xef\xbb', b'\xff']
    for enc in CODECS:
        for b in inc_blobs:
            for i in range(len(b) + 1):
                for j in sorted({i, len(b)}):
                    parts = [b[:i], b[i:j], b[j:]] if j > i else [b[:i], b[i:]]
                    for final in (False, True):
                        n += _cmp('incdec[%s]' % enc, lambda *ps: feed(lambda: _c.getincrementaldecoder(enc)(), ps, final),
                                  lambda *ps: feed(lambda: SymIncrementalDecoder(enc), [lift(p) if len(p) else p for p in ps], final), *parts)
    # codecs outside the bit-exact model (table codecs, non-text codecs, unknown names), name symbolic and pinned
    for enc in ['cp1252', 'koi8-r', 'uu', 'hex', 'rot13', 'base64', 'zlib', 'idna', 'punycode', 'no-such', 'U8', 'l1', 'Utf_16']:
        for t in ['a', 'hi\n', 'é']:
            n += _cmp('encode-name[%s]' % enc, lambda x, e: x.encode(e), lambda x, e: codecs_model.encode(lift(x), lift(e)), t, enc)
        for b in [b'a', b'{}\n', b'\xe9', b'begin 666 x\n \nend\n']:
            n += _cmp('decode-name[%s]' % enc, lambda x, e: x.decode(e), lambda x, e: codecs_model.decode(lift(x), lift(e)), b, enc)
    return n


JSON_TEXTS = ['{}', '[]', '0', '-0', '1.5', '1e5', '1E-2', 'null', 'true', 'false', '""', '"a"', '{"a": 1}', '{"a": 1}\n',
              '{\n    "k": "v"\n}\n', '[1, 2, {"x": null}]', '"\\n\\t\\"\\\\\\/\\b\\f\\r"', '"\\u00e9"', '"\\ud83d\\ude00"', '"\\ud800"',
              '"\\udc00\\ud800"', '"\\u12_4"', '"\\u 123"', '"\\u+123"', '"\\u0x12"', '"\\uD83D"', '"\\x"', '"a', 'a"', '[', ']', '{', '}',
              '{"a"}', '{"a":}', '{"a" 1}', '{a: 1}', "{'a': 1}", '[1,]', '[,1]', '{"a": 1,}', 'nul', 'nulll', 'tru', 'NaN', 'Infinity',
              '-Infinity', '-', '+1', '01', '1.', '.5', '1e', '1e+', '0x10', '1_0', ' 1', '1 ', '\t[\r\n]\n', '[] []', '{} x',
              '"\x00"', '"\x1f"', '"\x7f"', '"é"', '"\U0001f600"', '{"é": "ü"}', '１', '1２', '"\\', '"\\u"', '"\\u12"', '',
              ' ', '\n', '\ufeff{}', '[[[[[]]]]]', '{"a": {"b": [1, "c", {"d": false}]}}', '{"a": 1, "a": 2}', '123456789012345678901234567890',
              '1.0e308', '1e999', '-1e999', '"\u2028\u2029"', '[1 2]', '{"a": 1 "b": 2}', '"\\ud83d\\u0041"', '"\\ud83dx"']
JSON_VALUES = [{}, {'a': 1}, {'k': 'v', 'b': [1, 2.5, None, True, False]}, {'é': 'ü€\U0001f600'}, {'q': '"\\/\b\f\n\r\t'},
               {'c': '\x00\x1f\x7f\x80\u2028'}, {'s': '\ud800'}, {'s2': '\udc00\ud800'}, {'pair': '\ud83d\ude00'}, {'n': {'m': {'o': []}}},
               {'': ''}, {'big': 10 ** 30, 'neg': -5, 'f': 1e100}, [], [[]], 'x', 5, None, {'hdr': '#.meta: length=1\n'}]


def json_model():
    """the instrumented pure-Python JSON decoder / encoder (sx/jsonmodel.py) against the native json module"""
    import json
    from . import jsonmodel
    n = 0
    for t in JSON_TEXTS:
        n += _cmp('json.loads', lambda x: json.loads(x), lambda x: jsonmodel.loads(lift(x) if len(x) else x), t)
        try:
            b = t.encode('utf-8')
        except UnicodeEncodeError:
            continue
    lim = jsonmodel.native_depth_limit()
    old_rl = sys.getrecursionlimit()
    sys.setrecursionlimit(max(old_rl, 400000))
    try:
        for k in (lim - 1, lim, lim + 1, 3 * lim):
            for op, cl in (('[', ']'), ('{"a":', '}')):
                t = op * k + '1' + cl * k
                a = run_native(lambda: type(json.loads(t)).__name__)
                b = run_native(lambda: type(jsonmodel.loads(lift(t))).__name__.replace('SymDict', 'dict'))
                if not same(a, b):
                    raise Mismatch('json nesting depth %d %r: native %r != model %r' % (k, op, a, b))
                n += 1
    finally:
        sys.setrecursionlimit(old_rl)
    for v in JSON_VALUES:
        for kw in ({}, dict(indent=4, sort_keys=True, separators=(',', ': ')), dict(ensure_ascii=False, indent=2), dict(sort_keys=True)):
            a = run_native(lambda: json.dumps(v, **kw))
            b = run_native(lambda: jsonmodel.dumps(v, **kw))
            if not same(a, b):
                raise Mismatch('json.dumps(%r, %r): native %r != model %r' % (v, kw, a, b))
            n += 1
    # symbolic (pinned) string values inside a concrete structure
    for sv in ['a', 'é', '"', '\\', '\n', '\x00', '\x7f', '\u2028', '\ud800', '\U0001f600', 'ab', '\ud83d\ude00', '€"']:
        for kw in ({}, dict(indent=4, sort_keys=True, separators=(',', ': ')), dict(ensure_ascii=False)):
            n += _cmp('json.dumps/sym', lambda x: json.dumps({'k': [x, 1], 'z': x}, **kw),
                      lambda x: jsonmodel.dumps({'k': [x, 1], 'z': x}, **kw), sv)
    return n


def stream_lines():
    n = 0
    for data in [b'', b'a', b'a\n', b'\n\n', b'ab\ncd', b'ab\r\ncd\n', b'\nx']:
        def script(mk):
            def run(d):
                fp = mk(d)
                out = [fp.readline(), fp.tell(), fp.readline(1), fp.readline(0), fp.read(1), fp.readline(), fp.tell()]
                fp.seek(0)
                out.append(fp.readlines())
                fp.seek(0)
                out.append(list(fp))
                return out
            return run
        n += _cmp('readline', script(io.BytesIO), script(lambda d: SymStream(lift(d) if len(d) else d)), data)
    return n


def streams():
    n = 0

    def script(mk):
        def run(data):
            st = mk(data)
            out = []
            out.append(st.read(3))
            st.seek(-2, 1)
            out.append(st.read(2))
            out.append(st.read(100))
            out.append(st.read(1))
            st.seek(1)
            out.append(st.read(-1))
            w = mk(b'')
            w.write(b'ab')
            w.write(data)
            out.append(w.getvalue())
            return out
        return run
    for d in [b'', b'a', b'abcdef', b'\n\n\n\n']:
        n += _cmp('stream', script(io.BytesIO), script(SymStream), d)
    return n


def main():
    tot = 0
    for f in (seq_methods, int_model, regex_generic, nfa_vs_re, codecs, streams, stream_lines, json_model):
        k = f()
        print('%-16s %6d concrete runs agree' % (f.__name__, k))
        tot += k
    print('selftest ok: %d' % tot)
    return 0
