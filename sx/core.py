"""SX core: path context, solver-decided control flow, shadow values.

Length-concrete symbolic shadow execution (DESIGN.md section 2): bytes/str of
concrete length whose elements are z3 bit-vectors, Python ints as z3 Int,
booleans as z3 Bool.  `bool()` of a symbolic condition asks the solver which
sides are feasible under the current path condition; the untaken side is queued
as a decision prefix and explored by re-execution (stateless DFS).
"""
import time

import z3


class Stats:
    queries = 0
    solver_s = 0.0
    paths = 0
    unknown = 0
    decisions = 0

    @classmethod
    def snapshot(cls):
        return dict(queries=cls.queries, solver_s=cls.solver_s, paths=cls.paths,
                    unknown=cls.unknown, decisions=cls.decisions)

    @classmethod
    def reset(cls):
        cls.queries = 0
        cls.solver_s = 0.0
        cls.paths = 0
        cls.unknown = 0
        cls.decisions = 0


class PathAbort(BaseException):
    """The current path is infeasible / excluded by an assumption."""


class Unmodelled(BaseException):
    """The code under test used something the models do not cover.  The path is
    inconclusive; never a verdict (BaseException so that `except Exception` in
    the code under test cannot swallow it)."""


class OutOfBound(BaseException):
    """A stated bound (reads, unrollings) was exceeded on this path."""


class PathTimeout(BaseException):
    """The code under test did not finish within the per-path CPU-time limit (ITIMER_PROF: process CPU
    time, so a loaded machine does not produce spurious time-outs)
    (harnesses whose property includes termination turn this into a violation
    that the replay must confirm)."""


class SolverUnknown(BaseException):
    """The solver answered unknown on a branch decision."""


REACHED = set()          # names of instrumented functions entered (vacuity guard)


class Ctx:
    cur = None
    timeout_ms = 20000
    seed = 0

    def __init__(self, prefix=()):
        self.prefix = list(prefix)
        self.pos = 0
        self.decisions = []
        self.solver = z3.SolverFor('QF_AUFBVLIA') if False else z3.Solver()
        self.solver.set('timeout', self.timeout_ms)
        if Ctx.seed:
            self.solver.set('random_seed', Ctx.seed)
        self.pending = []
        self.nfresh = 0
        self.choices = []          # (name, value) harness-level choices, for samples
        self.model_cache = None
        self.flags = set()         # 'stubbed', 'concretised', ...
        self.notes = []

    # ---- naming
    def fresh(self, name):
        self.nfresh += 1
        return '%s!%d' % (name, self.nfresh)

    # ---- solver
    def check(self, *extra):
        t = time.time()
        r = self.solver.check(*extra)
        Stats.solver_s += time.time() - t
        Stats.queries += 1
        if r == z3.unknown:
            # one retry with a fresh solver (different internal state)
            s2 = z3.Solver()
            s2.set('timeout', self.timeout_ms * 2)
            s2.set('random_seed', 7 + Ctx.seed)
            s2.add(self.solver.assertions())
            t = time.time()
            r = s2.check(*extra)
            Stats.solver_s += time.time() - t
            Stats.queries += 1
            if r == z3.sat:
                self.model_cache = s2.model()
                self._last_model_solver = s2
            if r == z3.unknown:
                Stats.unknown += 1
            return r
        if r == z3.sat:
            self.model_cache = self.solver.model()
        return r

    def model(self):
        """a model of the current path condition (None if infeasible)"""
        r = self.check()
        if r != z3.sat:
            return None
        return self.model_cache

    def assume(self, cond):
        if cond is True:
            return
        if cond is False:
            raise PathAbort('assume False')
        self.solver.add(cond)
        self.model_cache = None

    def _model_says(self, cond):
        m = self.model_cache
        if m is None:
            return None
        try:
            v = m.eval(cond, True)
        except z3.Z3Exception:
            return None
        if z3.is_true(v):
            return True
        if z3.is_false(v):
            return False
        return None

    def branch(self, cond, tag=None):
        if isinstance(cond, bool):
            return cond
        if isinstance(cond, SBool):
            cond = cond.e
        cond = z3.simplify(cond)
        if z3.is_true(cond):
            return True
        if z3.is_false(cond):
            return False
        if self.pos < len(self.prefix):
            taken, forced = self.prefix[self.pos][:2]
        else:
            hint = self._model_says(cond)
            keep = self.model_cache
            if hint is True:
                can_t = True
                r = self.check(z3.Not(cond))
                if r == z3.unknown:
                    raise SolverUnknown()
                can_f = r == z3.sat
                if can_f:
                    self.model_cache = keep        # keep the model of the taken side
            elif hint is False:
                can_f = True
                r = self.check(cond)
                if r == z3.unknown:
                    raise SolverUnknown()
                can_t = r == z3.sat
            else:
                r = self.check(cond)
                if r == z3.unknown:
                    raise SolverUnknown()
                can_t = r == z3.sat
                mt = self.model_cache if can_t else None
                r = self.check(z3.Not(cond))
                if r == z3.unknown:
                    raise SolverUnknown()
                can_f = r == z3.sat
                if can_t:
                    self.model_cache = mt
            if can_t and can_f:
                taken, forced = True, False
                self.pending.append(self.decisions + [(False, False, tag)])
            elif can_t:
                taken, forced = True, True
            elif can_f:
                taken, forced = False, True
            else:
                raise PathAbort('infeasible')
        self.pos += 1
        Stats.decisions += 1
        self.decisions.append((taken, forced, tag))
        self.solver.add(cond if taken else z3.Not(cond))
        if self.model_cache is not None and self._model_says(cond) is not taken:
            self.model_cache = None
        return taken

    def choose(self, lo, hi, name='n'):
        """harness-level choice of an integer in lo..hi inclusive (an explicit,
        stated range; recorded as decisions, no solver involved)"""
        v = hi
        for cand in range(lo, hi):
            if self.pos < len(self.prefix):
                taken, forced = self.prefix[self.pos][:2]
            else:
                taken, forced = True, False
                self.pending.append(self.decisions + [(False, False, None)])
            self.pos += 1
            self.decisions.append((taken, forced, None))
            if taken:
                v = cand
                break
        self.choices.append((name, v))
        return v

    def pick(self, name, options):
        options = list(options)
        i = self.choose(0, len(options) - 1, name)
        self.choices[-1] = (name, _short(options[i]))
        return options[i]

    def flag(self, f):
        self.flags.add(f)


def _short(x):
    r = repr(x)
    return r if len(r) <= 60 else r[:57] + '...'


def cur():
    return Ctx.cur


def _br(c, tag=None):
    """decide a condition: concrete booleans need no context (so that the
    oracles also run natively in replays)"""
    if c is True or c is False:
        return c
    return Ctx.cur.branch(c, tag) if tag is not None else Ctx.cur.branch(c)


# ---------------------------------------------------------------- formulas

def conj(cs):
    out = []
    for c in cs:
        if isinstance(c, SBool):
            c = c.e
        if c is True:
            continue
        if c is False:
            return False
        out.append(c)
    if not out:
        return True
    return z3.And(*out) if len(out) > 1 else out[0]


def disj(cs):
    out = []
    for c in cs:
        if isinstance(c, SBool):
            c = c.e
        if c is True:
            return True
        if c is False:
            continue
        out.append(c)
    if not out:
        return False
    return z3.Or(*out) if len(out) > 1 else out[0]


def neg(c):
    if isinstance(c, SBool):
        c = c.e
    return (not c) if isinstance(c, bool) else z3.Not(c)


def zbool(c):
    if isinstance(c, SBool):
        return c.e
    return z3.BoolVal(c) if isinstance(c, bool) else c


def ite(c, a, b):
    if isinstance(c, SBool):
        c = c.e
    if c is True:
        return a
    if c is False:
        return b
    return z3.If(c, a, b)


def implies(a, b):
    return disj([neg(a), b])


def iff(a, b):
    if isinstance(a, bool) and isinstance(b, bool):
        return a == b
    return zbool(a) == zbool(b)


def el_eq(a, b):
    if isinstance(a, int) and isinstance(b, int):
        return a == b
    if isinstance(a, int):
        a = z3.BitVecVal(a, b.size())
    elif isinstance(b, int):
        b = z3.BitVecVal(b, a.size())
    elif a.size() != b.size():
        if a.size() < b.size():
            a = z3.ZeroExt(b.size() - a.size(), a)
        else:
            b = z3.ZeroExt(a.size() - b.size(), b)
    return a == b


def rng(c, lo, hi):
    if isinstance(c, int):
        return lo <= c <= hi
    return z3.And(z3.UGE(c, lo), z3.ULE(c, hi))


# ---------------------------------------------------------------- SBool / SInt

class SBool:
    def __init__(self, e):
        self.e = e

    def __bool__(self):
        return _br(self.e)

    def __repr__(self):
        return 'SBool(%s)' % self.e


def mkb(c):
    if isinstance(c, bool):
        return c
    if isinstance(c, SBool):
        return c
    c = z3.simplify(c)
    if z3.is_true(c):
        return True
    if z3.is_false(c):
        return False
    return SBool(c)


class SInt:
    """symbolic Python int (mathematical integer, z3 Int)"""

    def __init__(self, e):
        self.e = e

    @property
    def __class__(self):
        return int

    @staticmethod
    def _z(o):
        if isinstance(o, SInt):
            return o.e
        if isinstance(o, bool):
            return z3.IntVal(int(o))
        if isinstance(o, int):
            return z3.IntVal(o)
        return None

    def concretize(self):
        """enumerate the feasible values of this int (forks)"""
        ctx = Ctx.cur
        while True:
            if ctx.pos < len(ctx.prefix) and ctx.prefix[ctx.pos][2] is not None:
                # replay: the candidate value is recorded in the decision, so
                # re-execution does not depend on which model the solver finds
                v = ctx.prefix[ctx.pos][2]
            else:
                m = ctx.model()
                if m is None:
                    raise PathAbort('concretize: infeasible')
                v = m.eval(self.e, True).as_long()
            if ctx.branch(self.e == v, tag=v):
                return v

    def __index__(self):
        return self.concretize()

    __int__ = __index__

    def __hash__(self):
        return hash(self.concretize())

    def _bin(self, o, f):
        z = self._z(o)
        if z is None:
            return NotImplemented
        return mki(f(self.e, z))

    def _rbin(self, o, f):
        z = self._z(o)
        if z is None:
            return NotImplemented
        return mki(f(z, self.e))

    def _cmp(self, o, f):
        z = self._z(o)
        if z is None:
            return NotImplemented
        return mkb(f(self.e, z))

    def __eq__(self, o):
        z = self._z(o)
        if z is None:
            return False
        return mkb(self.e == z)

    def __ne__(self, o):
        z = self._z(o)
        if z is None:
            return True
        return mkb(self.e != z)

    def __add__(self, o): return self._bin(o, lambda a, b: a + b)
    def __radd__(self, o): return self._rbin(o, lambda a, b: a + b)
    def __sub__(self, o): return self._bin(o, lambda a, b: a - b)
    def __rsub__(self, o): return self._rbin(o, lambda a, b: a - b)
    def __mul__(self, o):
        if isinstance(o, (bytes, str)) or (hasattr(o, 'el') and hasattr(o, 'kind')):
            return o * self.concretize()
        return self._bin(o, lambda a, b: a * b)
    def __rmul__(self, o):
        if isinstance(o, (bytes, str, list, tuple)) or (hasattr(o, 'el') and hasattr(o, 'kind')):
            return o * self.concretize()
        return self._rbin(o, lambda a, b: a * b)
    def __neg__(self): return mki(-self.e)
    def __pos__(self): return self
    def __lt__(self, o): return self._cmp(o, lambda a, b: a < b)
    def __le__(self, o): return self._cmp(o, lambda a, b: a <= b)
    def __gt__(self, o): return self._cmp(o, lambda a, b: a > b)
    def __ge__(self, o): return self._cmp(o, lambda a, b: a >= b)

    def __floordiv__(self, o):
        # python floor division (z3 div is euclidean for positive divisors)
        z = self._z(o)
        if z is None:
            return NotImplemented
        if isinstance(o, int) and o > 0:
            return mki(self.e / z)
        raise Unmodelled('SInt // non-positive-constant')

    def __mod__(self, o):
        z = self._z(o)
        if z is None:
            return NotImplemented
        if isinstance(o, int) and o > 0:
            return mki(self.e % z)
        raise Unmodelled('SInt % non-positive-constant')

    # bit operations: shifts by constants are exact on mathematical integers; and/or/xor go through 32-bit
    # vectors after *proving* (one solver query) that both operands lie in [0, 2**32) on this path
    def __rshift__(self, k):
        if type(k) is int and k >= 0:
            return mki(self.e / z3.IntVal(2 ** k))
        raise Unmodelled('SInt >> non-constant')

    def __lshift__(self, k):
        if type(k) is int and k >= 0:
            return mki(self.e * z3.IntVal(2 ** k))
        raise Unmodelled('SInt << non-constant')

    def _bv32(self, o):
        ctx = Ctx.cur
        zs = []
        for x in (self, o):
            z = self._z(x)
            if z is None:
                return None
            if isinstance(x, SInt):
                keep = ctx.model_cache
                r = ctx.check(z3.Or(z < 0, z >= 2 ** 32))
                ctx.model_cache = keep
                if r != z3.unsat:
                    raise Unmodelled('bit operation on a symbolic int not known to be in [0, 2**32)')
            elif not 0 <= int(x) < 2 ** 32:
                raise Unmodelled('bit operation with a constant outside [0, 2**32)')
            zs.append(z3.Int2BV(z, 32))
        return zs

    def _bit(self, o, f):
        zs = self._bv32(o)
        if zs is None:
            return NotImplemented
        return mki(z3.BV2Int(f(zs[0], zs[1])))

    def __and__(self, o): return self._bit(o, lambda a, b: a & b)
    def __or__(self, o): return self._bit(o, lambda a, b: a | b)
    def __xor__(self, o): return self._bit(o, lambda a, b: a ^ b)
    __rand__ = __and__
    __ror__ = __or__
    __rxor__ = __xor__

    def __bool__(self):
        return _br(self.e != 0)

    def __repr__(self):
        return 'SInt(%s)' % self.e

    def __deepcopy__(self, memo):
        return self

    def __copy__(self):
        return self

    def __str__(self):
        return str(self.concretize())

    def __format__(self, spec):
        return format(self.concretize(), spec)


def mki(e):
    if isinstance(e, int):
        return e
    s = z3.simplify(e)
    return s.as_long() if z3.is_int_value(s) else SInt(s)


def zint(x):
    if isinstance(x, SInt):
        return x.e
    return z3.IntVal(int(x))


def sym_int(ctx, name, lo=None, hi=None):
    v = z3.Int(name)
    if lo is not None:
        ctx.assume(v >= lo)
    if hi is not None:
        ctx.assume(v <= hi)
    return SInt(v)


# ---------------------------------------------------------------- SSeq

WS_BYTES = (9, 10, 11, 12, 13, 32)
# str.strip()/isspace(): Unicode whitespace
WS_STR = (9, 10, 11, 12, 13, 28, 29, 30, 31, 32, 0x85, 0xa0, 0x1680,
          0x2000, 0x2001, 0x2002, 0x2003, 0x2004, 0x2005, 0x2006, 0x2007, 0x2008,
          0x2009, 0x200a, 0x2028, 0x2029, 0x202f, 0x205f, 0x3000)


class SSeq:
    """bytes or str with concrete length and (possibly) symbolic elements.
    Elements: python int, or z3 BitVec(8) for bytes / BitVec(32) for str."""

    __slots__ = ('el', 'kind', '_shadow')

    def __init__(self, elems, kind=bytes):
        self.el = tuple(elems)
        self.kind = kind
        self._shadow = None

    def _fast(self):
        """(concrete shadow bytes, sorted symbolic positions) for long byte sequences"""
        if self._shadow is None:
            syms = [i for i, e in enumerate(self.el) if not isinstance(e, int)]
            self._shadow = (bytes(e if isinstance(e, int) else 0 for e in self.el), syms)
        return self._shadow

    @property
    def __class__(self):
        return self.kind

    def __len__(self):
        return len(self.el)

    def __bool__(self):
        return len(self.el) > 0

    def __iter__(self):
        if self.kind is bytes:
            for e in self.el:
                yield e if isinstance(e, int) else SByteInt(e)
        else:
            for i in range(len(self.el)):
                yield mk_seq(self.el[i:i + 1], str)

    def _lift(self, o):
        if isinstance(o, SSeq):
            if o.kind is not self.kind:
                raise TypeError('mixing bytes and str')
            return o.el
        if isinstance(o, (bytes, bytearray)):
            if self.kind is not bytes:
                raise TypeError('a str-like object is required, not bytes')
            return tuple(o)
        if isinstance(o, str):
            if self.kind is not str:
                raise TypeError("a bytes-like object is required, not 'str'")
            return tuple(ord(c) for c in o)
        raise TypeError('cannot use %s with %s' % (type(o).__name__, self.kind.__name__))

    def eq_cond(self, o):
        if isinstance(o, SSeq):
            if o.kind is not self.kind:
                return False
            oe = o.el
        elif isinstance(o, bytes):
            if self.kind is not bytes:
                return False
            oe = tuple(o)
        elif isinstance(o, str):
            if self.kind is not str:
                return False
            oe = tuple(map(ord, o))
        else:
            return False
        if len(oe) != len(self.el):
            return False
        return conj(el_eq(a, b) for a, b in zip(self.el, oe))

    def __eq__(self, o):
        return mkb(self.eq_cond(o))

    def __ne__(self, o):
        return mkb(neg(self.eq_cond(o)))

    __hash__ = None

    def __add__(self, o):
        return mk_seq(self.el + self._lift(o), self.kind)

    def __radd__(self, o):
        return mk_seq(self._lift(o) + self.el, self.kind)

    def __mul__(self, n):
        return mk_seq(self.el * int(n), self.kind)

    __rmul__ = __mul__

    def __getitem__(self, k):
        if isinstance(k, slice):
            k = slice(*[None if x is None else int(x) for x in (k.start, k.stop, k.step)])
            return mk_seq(self.el[k], self.kind)
        k = int(k)
        if self.kind is str:
            return mk_seq((self.el[k],), str)
        e = self.el[k]
        return e if isinstance(e, int) else SByteInt(e)

    def at(self, sub, i):
        """condition: sub occurs at index i"""
        if i < 0 or i + len(sub) > len(self.el):
            return False
        return conj(el_eq(a, b) for a, b in zip(self.el[i:], sub))

    def _window(self, start, end):
        """slice.indices-like normalisation of optional (start, end) arguments; None if start > len (the
        str/bytes methods then report 'no match' even for an empty needle)"""
        n = len(self.el)
        start = 0 if start is None else int(start)
        end = n if end is None else int(end)
        if start < 0:
            start = max(0, n + start)
        if end < 0:
            end = max(0, n + end)
        end = min(end, n)
        if start > n:
            return None
        return start, end

    def _affix(self, p, start, end, suffix):
        w = self._window(start, end)

        def one(x):
            sub = self._lift(x)
            if w is None or w[1] - w[0] < len(sub):
                return False
            return self.at(sub, (w[1] - len(sub)) if suffix else w[0])
        if isinstance(p, tuple):
            return mkb(disj(one(x) for x in p))
        return mkb(one(p))

    def startswith(self, p, start=0, end=None):
        return self._affix(p, start, end, False)

    def endswith(self, p, start=0, end=None):
        return self._affix(p, start, end, True)

    def find(self, sub, start=0, end=None):
        sub = self._lift(sub)
        w = self._window(start, end)
        if w is None:
            return -1
        start, n = w
        m = len(sub)
        if self.kind is bytes and n - start > 48 and m and all(isinstance(x, int) for x in sub):
            # long, mostly concrete data: jump over concrete stretches with bytes.find, decide with the
            # solver only where a symbolic element is involved (same leftmost-match semantics)
            import bisect
            shadow, syms = self._fast()
            sb = bytes(sub)
            i = start
            while i <= n - m:
                k = bisect.bisect_left(syms, i)
                nxt = min(syms[k] if k < len(syms) else n, n)
                if nxt - i >= m:
                    p = shadow.find(sb, i, nxt)
                    if p >= 0:
                        return p
                    i = nxt - m + 1
                # positions whose window touches a symbolic element
                while i <= n - m:
                    k = bisect.bisect_left(syms, i)
                    if k >= len(syms) or syms[k] >= i + m:
                        break
                    if _br(self.at(sub, i)):
                        return i
                    i += 1
            return -1
        for i in range(start, n - len(sub) + 1):
            if _br(self.at(sub, i)):
                return i
        return -1

    def rfind(self, sub, start=0, end=None):
        sub = self._lift(sub)
        w = self._window(start, end)
        if w is None:
            return -1
        for i in range(w[1] - len(sub), w[0] - 1, -1):
            if _br(self.at(sub, i)):
                return i
        return -1

    def index(self, sub, start=0, end=None):
        i = self.find(sub, start, end)
        if i < 0:
            raise ValueError('subsection not found')
        return i

    def rindex(self, sub, start=0, end=None):
        i = self.rfind(sub, start, end)
        if i < 0:
            raise ValueError('subsection not found')
        return i

    def __contains__(self, sub):
        if isinstance(sub, SByteInt) or type(sub) is int:
            v = sub.bv if isinstance(sub, SByteInt) else sub
            return _br(disj(el_eq(e, v) for e in self.el))
        return self.find(sub) >= 0

    def count(self, sub, start=0, end=None):
        w = self._window(start, end)
        if w is None:
            return 0
        sub_el = self._lift(sub)
        if not sub_el:
            return w[1] - w[0] + 1
        return len(lift(mk_seq(self.el[w[0]:w[1]], self.kind)).split(sub)) - 1

    def format(self, *a, **k):
        from .instrument import h_format
        return h_format(self, a, k)

    def __reversed__(self):
        return iter(list(self)[::-1])

    def title(self):
        raise Unmodelled('title() of symbolic text')

    capitalize = swapcase = casefold = expandtabs = translate = zfill = center = ljust = rjust = title

    def split(self, sep=None, maxsplit=-1):
        if sep is None:
            raise Unmodelled('split() on whitespace')
        sub = self._lift(sep)
        if not sub:
            raise ValueError('empty separator')
        out = []
        pos = 0
        n = 0
        while maxsplit < 0 or n < maxsplit:
            i = self.find(sep, pos)
            if i < 0:
                break
            out.append(mk_seq(self.el[pos:i], self.kind))
            pos = i + len(sub)
            n += 1
        out.append(mk_seq(self.el[pos:], self.kind))
        return out

    LINE_BREAKS_BYTES = (10, 13)
    LINE_BREAKS_STR = (10, 11, 12, 13, 0x1c, 0x1d, 0x1e, 0x85, 0x2028, 0x2029)

    def splitlines(self, keepends=False):
        """bytes.splitlines / str.splitlines: breaks at \n, \r, \r\n (and the Unicode line
        boundaries for str); forks per element"""
        brk = self.LINE_BREAKS_BYTES if self.kind is bytes else self.LINE_BREAKS_STR
        out = []
        start = 0
        i = 0
        n = len(self.el)
        while i < n:
            e = self.el[i]
            if _br(disj(el_eq(e, b) for b in brk)):
                end = i + 1
                if end < n and _br(conj([el_eq(e, 13), el_eq(self.el[end], 10)])):
                    end += 1
                out.append(mk_seq(self.el[start:end] if keepends else self.el[start:i], self.kind))
                start = i = end
            else:
                i += 1
        if start < n:
            out.append(mk_seq(self.el[start:], self.kind))
        return out

    def rsplit(self, sep=None, maxsplit=-1):
        if sep is None:
            raise Unmodelled('rsplit() on whitespace')
        sub = self._lift(sep)
        if maxsplit < 0:
            return self.split(sep)
        out = []
        end = len(self.el)
        n = 0
        while n < maxsplit:
            i = -1
            for j in range(end - len(sub), -1, -1):
                if _br(self.at(sub, j)):
                    i = j
                    break
            if i < 0:
                break
            out.append(mk_seq(self.el[i + len(sub):end], self.kind))
            end = i
            n += 1
        out.append(mk_seq(self.el[:end], self.kind))
        return out[::-1]

    def rpartition(self, sep):
        i = self.rfind(sep)
        sub = self._lift(sep)
        if i < 0:
            return (mk_seq((), self.kind), mk_seq((), self.kind), self)
        return (mk_seq(self.el[:i], self.kind), mk_seq(sub, self.kind), mk_seq(self.el[i + len(sub):], self.kind))

    def removeprefix(self, p):
        sub = self._lift(p)
        if _br(self.at(sub, 0)):
            return mk_seq(self.el[len(sub):], self.kind)
        return self

    def removesuffix(self, p):
        sub = self._lift(p)
        if len(sub) and _br(self.at(sub, len(self.el) - len(sub))):
            return mk_seq(self.el[:len(self.el) - len(sub)], self.kind)
        return self

    def isalpha(self):
        if not self.el:
            return False
        if self.kind is str:
            self._ascii_only('isalpha')
        return mkb(conj(disj([rng(e, 65, 90), rng(e, 97, 122)]) for e in self.el))

    def partition(self, sep):
        i = self.find(sep)
        sub = self._lift(sep)
        if i < 0:
            return (self, mk_seq((), self.kind), mk_seq((), self.kind))
        return (mk_seq(self.el[:i], self.kind), mk_seq(sub, self.kind),
                mk_seq(self.el[i + len(sub):], self.kind))

    def replace(self, old, new):
        parts = self.split(old)
        newel = self._lift(new)
        el = ()
        for i, p in enumerate(parts):
            if i:
                el += newel
            el += lift(p).el
        return mk_seq(el, self.kind)

    def join(self, items):
        el = ()
        for i, it in enumerate(items):
            if i:
                el += self.el
            el += self._lift(it)
        return mk_seq(el, self.kind)

    def _is_ws(self, e):
        ws = WS_BYTES if self.kind is bytes else WS_STR
        if isinstance(e, int):
            return e in ws
        return z3.Or(*[e == w for w in ws])

    def _strip(self, chars, left, right):
        if chars is None:
            test = self._is_ws
        else:
            cs = self._lift(chars)
            test = lambda e: disj(el_eq(e, c) for c in cs)
        a, b = 0, len(self.el)
        if left:
            while a < b and _br(test(self.el[a])):
                a += 1
        if right:
            while b > a and _br(test(self.el[b - 1])):
                b -= 1
        return mk_seq(self.el[a:b], self.kind)

    def strip(self, chars=None):
        return self._strip(chars, True, True)

    def lstrip(self, chars=None):
        return self._strip(chars, True, False)

    def rstrip(self, chars=None):
        return self._strip(chars, False, True)

    def lower(self):
        return mk_seq([e if isinstance(e, int) else
                       z3.If(z3.And(z3.UGE(e, 65), z3.ULE(e, 90)), e + 32, e)
                       for e in self._ascii_only('lower')], self.kind)

    def upper(self):
        return mk_seq([e if isinstance(e, int) else
                       z3.If(z3.And(z3.UGE(e, 97), z3.ULE(e, 122)), e - 32, e)
                       for e in self._ascii_only('upper')], self.kind)

    def _ascii_only(self, what):
        """str case mapping is modelled for ASCII only; bytes is exact"""
        if self.kind is str:
            for e in self.el:
                if isinstance(e, int):
                    if e >= 128:
                        raise Unmodelled('str.%s on non-ASCII' % what)
                elif _br(z3.UGE(e, 128)):
                    raise Unmodelled('str.%s on non-ASCII' % what)
        return self.el

    def isascii(self):
        return mkb(conj(rng(e, 0, 127) for e in self.el))

    def isdigit(self):
        if not self.el:
            return False
        if self.kind is str:
            self._ascii_only('isdigit')
        return mkb(conj(rng(e, 48, 57) for e in self.el))

    def isalnum(self):
        if not self.el:
            return False
        if self.kind is str:
            self._ascii_only('isalnum')
        return mkb(conj(disj([rng(e, 48, 57), rng(e, 65, 90), rng(e, 97, 122)]) for e in self.el))

    def isspace(self):
        if not self.el:
            return False
        return mkb(conj(self._is_ws(e) for e in self.el))

    def encode(self, encoding='utf-8', errors='strict'):
        if self.kind is not str:
            raise AttributeError("'bytes' object has no attribute 'encode'")
        from . import codecs_model
        return codecs_model.encode(self, encoding, errors)

    def decode(self, encoding='utf-8', errors='strict'):
        if self.kind is not bytes:
            raise AttributeError("'str' object has no attribute 'decode'")
        from . import codecs_model
        return codecs_model.decode(self, encoding, errors)

    def __repr__(self):
        return 'SSeq[%s](%s)' % (self.kind.__name__, list(self.el))

    def __deepcopy__(self, memo):
        return self             # immutable

    def __copy__(self):
        return self

    def __str__(self):
        if self.kind is str:
            # str() must return a native str: formatting of symbolic text is
            # not the subject (callers that need the text use the value itself)
            if Ctx.cur is not None:
                Ctx.cur.flag('opaque-format')
            return '<sx:symbolic text>'
        return '<symbolic bytes>'

    def __mod__(self, other):
        from .instrument import h_mod
        return h_mod(self, other)

    def __lt__(self, o):
        raise Unmodelled('ordering comparison of symbolic sequences')

    __gt__ = __le__ = __ge__ = __lt__


class SByteInt(SInt):
    """an element of symbolic bytes viewed as an int (b[i])"""

    def __init__(self, bv):
        self.bv = bv
        SInt.__init__(self, z3.BV2Int(bv))


class SBVInt(SInt):
    """a non-negative int that is known as a bit-vector term (ord() of a symbolic character, int(hex digits, 16)):
    operations that can stay in the bit-vector theory (chr(), hex formatting) use `.bv` instead of going through
    Int2BV(BV2Int(...))"""

    def __init__(self, bv, ub=None):
        self.bv = bv
        self.ub = (1 << bv.size()) - 1 if ub is None else ub       # static upper bound of the value
        SInt.__init__(self, z3.BV2Int(bv))

    # arithmetic with constants / other bit-vector ints stays in the bit-vector theory (64-bit, no wrap-around
    # possible below the static bound 2**62); anything else falls back to the mathematical-integer operations
    def _wide(self, o):
        if type(o) is int and 0 <= o < 2 ** 62:
            return z3.BitVecVal(o, 64), o
        if isinstance(o, SBVInt) and o.ub < 2 ** 62:
            return (o.bv if o.bv.size() == 64 else z3.ZeroExt(64 - o.bv.size(), o.bv)), o.ub
        return None

    def _mk(self, bv, ub):
        bv = z3.simplify(bv)
        return bv.as_long() if z3.is_bv_value(bv) else SBVInt(bv, ub)

    def __add__(self, o):
        a, b = self._wide(self), self._wide(o)
        if a is None or b is None or a[1] + b[1] >= 2 ** 62:
            return SInt.__add__(self, o)
        return self._mk(a[0] + b[0], a[1] + b[1])

    __radd__ = __add__

    def __sub__(self, o):
        a, b = self._wide(self), self._wide(o)
        if a is None or b is None:
            return SInt.__sub__(self, o)
        ctx = Ctx.cur
        keep = ctx.model_cache
        r = ctx.check(z3.ULT(a[0], b[0]))
        ctx.model_cache = keep
        if r != z3.unsat:
            return SInt.__sub__(self, o)         # may go negative: mathematical integers
        return self._mk(a[0] - b[0], a[1])

    def __lshift__(self, k):
        a = self._wide(self)
        if a is None or type(k) is not int or k < 0 or (a[1] << k) >= 2 ** 62:
            return SInt.__lshift__(self, k)
        return self._mk(a[0] << k, a[1] << k)

    def __rshift__(self, k):
        a = self._wide(self)
        if a is None or type(k) is not int or k < 0:
            return SInt.__rshift__(self, k)
        return self._mk(z3.LShR(a[0], k), a[1] >> k)

    def _bw(self, o, f, ubf):
        a, b = self._wide(self), self._wide(o)
        if a is None or b is None:
            return SInt._bit(self, o, f)
        return self._mk(f(a[0], b[0]), ubf(a[1], b[1]))

    def __and__(self, o): return self._bw(o, lambda a, b: a & b, lambda x, y: min(x, y))
    def __or__(self, o): return self._bw(o, lambda a, b: a | b, lambda x, y: (1 << max(x.bit_length(), y.bit_length())) - 1)
    def __xor__(self, o): return self._bw(o, lambda a, b: a ^ b, lambda x, y: (1 << max(x.bit_length(), y.bit_length())) - 1)
    __rand__ = __and__
    __ror__ = __or__
    __rxor__ = __xor__


def mk_seq(el, kind):
    el = tuple(el)
    for e in el:
        if not isinstance(e, int):
            return SSeq(el, kind)
    return bytes(el) if kind is bytes else ''.join(map(chr, el))


def is_sym(x):
    return isinstance(x, (SSeq, SBool, SInt))


def has_sym(x):
    if is_sym(x):
        return True
    if isinstance(x, (list, tuple)):
        return any(is_sym(y) for y in x)
    return False


def lift(x):
    if isinstance(x, SSeq):
        return x
    if isinstance(x, (bytes, bytearray)):
        return SSeq(tuple(x), bytes)
    if isinstance(x, str):
        return SSeq(tuple(map(ord, x)), str)
    raise TypeError('lift(%r)' % type(x))


def seq_eq(a, b):
    """condition: two bytes/str values (native or shadow) are equal"""
    if type(a) in (bytes, str) and type(b) in (bytes, str):
        return a == b
    if not isinstance(a, (SSeq, bytes, str)) or not isinstance(b, (SSeq, bytes, str)):
        return False
    return lift(a).eq_cond(b)


def sym_bytes(ctx, name, n):
    return SSeq([z3.BitVec('%s_%d' % (name, i), 8) for i in range(n)], bytes) if n else b''


def sym_str(ctx, name, n, max_cp=0x10ffff):
    el = [z3.BitVec('%s_%d' % (name, i), 32) for i in range(n)]
    for e in el:
        ctx.assume(z3.ULE(e, max_cp))
    return SSeq(el, str) if n else ''


def model_val(model, e):
    if isinstance(e, int):
        return e
    return model.eval(e, True).as_long()


def model_str(model, s):
    if type(s) is str:
        return s
    return ''.join(chr(model_val(model, e)) for e in lift(s).el)


def model_bytes(model, s):
    if type(s) is bytes:
        return s
    return bytes(model_val(model, e) for e in lift(s).el)


def model_int(model, x):
    if isinstance(x, SInt):
        return model.eval(x.e, True).as_long()
    return int(x)


def concretize_value(model, v):
    """deep-concretise a value built from shadow values under a model"""
    if isinstance(v, SSeq):
        return model_bytes(model, v) if v.kind is bytes else model_str(model, v)
    if isinstance(v, SInt):
        return model_int(model, v)
    if isinstance(v, SBool):
        return z3.is_true(model.eval(v.e, True))
    if isinstance(v, dict):
        return {concretize_value(model, k): concretize_value(model, x) for k, x in v.items()}
    if isinstance(v, (list, tuple)):
        return type(v)(concretize_value(model, x) for x in v)
    return v
