"""Replay a counterexample file on the *uninstrumented* package (fresh process)."""
import importlib
import json
import sys
import traceback

from sx.driver import from_json


def main():
    path = sys.argv[1]
    with open(path) as f:
        doc = json.load(f)
    hm = importlib.import_module('harness.%s' % doc['property'])
    w = from_json(doc['witness'])
    try:
        r = hm.replay(doc['obligation'], doc.get('label'), w)
    except Exception:
        r = {'violated': False, 'error': traceback.format_exc()[-1500:]}
    assert 'pydiffx' not in sys.modules or not hasattr(sys.modules['pydiffx'], '_sx_call_')
    print(json.dumps(r, default=repr))


if __name__ == '__main__':
    main()
