"""Replay a counterexample file on the *uninstrumented* package (fresh process)."""
import importlib
import json
import sys
import traceback

from sx.driver import from_json


def main():
    for path in sys.argv[1:]:
        one(path)


def one(path):
    with open(path) as f:
        doc = json.load(f)
    hm = importlib.import_module('harness.%s' % doc['property'])
    w = from_json(doc['witness'])
    import signal

    class _Hang(BaseException):
        pass

    def _alarm(signum, frame):
        raise _Hang()
    signal.signal(signal.SIGPROF, _alarm)
    signal.setitimer(signal.ITIMER_PROF, int(getattr(hm, 'REPLAY_TIMEOUT', 20)))
    try:
        r = hm.replay(doc['obligation'], doc.get('label'), w)
        signal.setitimer(signal.ITIMER_PROF, 0)
    except _Hang:
        r = {'violated': bool(getattr(hm, 'HANG_IS_VIOLATION', False)), 'signature': 'nontermination',
             'detail': 'the real code did not terminate within the replay time limit on this input'}
    except Exception:
        r = {'violated': False, 'error': traceback.format_exc()[-1500:]}
    assert 'pydiffx' not in sys.modules or not hasattr(sys.modules['pydiffx'], '_sx_call_')
    print(json.dumps(r, default=repr), flush=True)


if __name__ == '__main__':
    main()
