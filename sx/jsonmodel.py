"""json.loads / json.dumps on symbolic text: CPython's own pure-Python JSON decoder, scanner and encoder
(json/decoder.py, json/scanner.py, json/encoder.py of the running interpreter), loaded as private copies through
the same AST instrumentation as the code under test, with the C accelerators switched off.  The pure-Python and
the C implementations are the two halves of one test suite in CPython; the copies are additionally validated
concolically against the native json module (sx/selftest.py: json_model)."""
import importlib.util
import json as _json
import json.decoder
import json.encoder
import json.scanner
import sys
import types

from . import instrument
from .core import SInt, SSeq, Unmodelled

_MODS = {}


def _load(name, real, patches):
    src = open(real.__file__, encoding='utf-8').read()
    for a, b in patches:
        if a not in src:
            raise Unmodelled('json model: %r not found in %s (different CPython?)' % (a, real.__file__))
        src = src.replace(a, b)
    mod = types.ModuleType(name)
    mod.__file__ = real.__file__
    mod.__dict__.update(instrument.HELPERS)
    sys.modules[name] = mod
    code = instrument.instrument_source(src, real.__file__, name)
    exec(code, mod.__dict__)
    return mod


_NATIVE_DEPTH = []


def native_depth_limit():
    """deepest nesting the native json.loads of this interpreter accepts (binary search, once per process)"""
    if not _NATIVE_DEPTH:
        def okk(k):
            try:
                _json.loads('[' * k + ']' * k)
                return True
            except RecursionError:
                return False
        lo, hi = 1, 1 << 20
        while lo < hi:
            mid = (lo + hi + 1) // 2
            if okk(mid):
                lo = mid
            else:
                hi = mid - 1
        _NATIVE_DEPTH.append(lo)
    return _NATIVE_DEPTH[0]


def mods():
    if not _MODS:
        # two known places where the pure-Python decoder is laxer than the C one that json.loads really uses:
        # \\d also matches non-ASCII digits, and \\uXXXX goes through int(x, 16) (accepts '12_4', ' 123', '+123')
        sc = _load('_sx_json_scanner', json.scanner, [
            ('    from _json import make_scanner as c_make_scanner\n', '    c_make_scanner = None\n'),
            (r"r'(-?(?:0|[1-9]\d*))(\.\d+)?([eE][-+]?\d+)?'", r"r'(-?(?:0|[1-9][0-9]*))(\.[0-9]+)?([eE][-+]?[0-9]+)?'"),
            # the C decoder gives up with RecursionError at a fixed nesting depth (its own C recursion limit,
            # independent of sys.getrecursionlimit()); the copy counts nesting and does the same at the depth
            # measured on the running interpreter (native_depth_limit)
            ("            return parse_object((string, idx + 1), strict,\n                _scan_once, object_hook, object_pairs_hook, memo)\n",
             "            return _nested(parse_object, (string, idx + 1), strict,\n                _scan_once, object_hook, object_pairs_hook, memo)\n"),
            ("            return parse_array((string, idx + 1), _scan_once)\n",
             "            return _nested(parse_array, (string, idx + 1), _scan_once)\n"),
            ("    def _scan_once(string, idx):\n",
             "    depth = [0]\n\n    def _nested(f, *a):\n        depth[0] += 1\n        try:\n            if depth[0] > DEPTH_LIMIT[0]:\n"
             "                raise RecursionError('maximum recursion depth exceeded while decoding a JSON value')\n"
             "            return f(*a)\n        finally:\n            depth[0] -= 1\n\n    def _scan_once(string, idx):\n")])
        sc.DEPTH_LIMIT = [native_depth_limit()]
        dec = _load('_sx_json_decoder', json.decoder, [
            ('from json import scanner\n', 'import _sx_json_scanner as scanner\n'),
            ('    from _json import scanstring as c_scanstring\n', '    c_scanstring = None\n'),
            ("    if len(esc) == 4 and esc[1] not in 'xX':\n",
             "    if len(esc) == 4 and HEX4.fullmatch(esc):\n"),
            ("def _decode_uXXXX(s, pos):\n", "HEX4 = re.compile(r'[0-9a-fA-F]{4}')\n\ndef _decode_uXXXX(s, pos):\n")])
        dec.JSONDecodeError = _json.JSONDecodeError
        enc = _load('_sx_json_encoder', json.encoder, [
            ('    from _json import encode_basestring_ascii as c_encode_basestring_ascii\n', '    c_encode_basestring_ascii = None\n'),
            ('    from _json import encode_basestring as c_encode_basestring\n', '    c_encode_basestring = None\n'),
            ('    from _json import make_encoder as c_make_encoder\n', '    c_make_encoder = None\n')])
        _MODS.update(scanner=sc, decoder=dec, encoder=enc)
    return _MODS


def loads(s, **kw):
    """json.loads(str) with the keyword arguments pydiffx may pass (none / object_pairs_hook ...)"""
    dec = mods()['decoder']
    return dec.JSONDecoder(**kw).decode(s)


def dumps(obj, *, skipkeys=False, ensure_ascii=True, check_circular=True, allow_nan=True, cls=None, indent=None,
          separators=None, default=None, sort_keys=False, **kw):
    if cls is not None or kw:
        raise Unmodelled('json.dumps with cls / extra keywords on symbolic values')
    enc = mods()['encoder']
    return enc.JSONEncoder(skipkeys=skipkeys, ensure_ascii=ensure_ascii, check_circular=check_circular,
                           allow_nan=allow_nan, indent=indent, separators=separators, default=default,
                           sort_keys=sort_keys).encode(obj)
