"""Inductive-step extraction: lift the body of a top-level loop of a function
(from the *current* source) into `step(**locals) -> (kind, locals)`.

Only `break` / `continue` / `yield` are rewritten; everything else is the
repository's statement sequence, instrumented like any other code."""
import ast
import inspect
import textwrap

from .instrument import HELPERS, Instr


class _Ret(ast.NodeTransformer):
    """inside the extracted loop body: break/continue -> return; nested
    loops / functions are left alone (their break/continue are their own)"""

    def __init__(self, names):
        self.names = names

    def visit_For(self, node):
        return node

    def visit_While(self, node):
        return node

    def visit_FunctionDef(self, node):
        return node

    def visit_Lambda(self, node):
        return node

    def _ret(self, kind):
        src = "return (%r, dict(%s))" % (kind, ', '.join(
            "%s=_sx_locals_.get(%r)" % (n, n) for n in self.names))
        return ast.parse(src).body[0]

    def visit_Break(self, node):
        return ast.copy_location(self._ret('break'), node)

    def visit_Continue(self, node):
        return ast.copy_location(self._ret('next'), node)

    def visit_Expr(self, node):
        if isinstance(node.value, ast.Yield):
            new = ast.parse("_sx_yield_.append(0)").body[0]
            new.value.args[0] = node.value.value
            return ast.copy_location(new, node)
        return node


class ExtractError(Exception):
    pass


class StaleUse(BaseException):
    """the extracted loop body read a local that this iteration had not assigned: in the real loop it would see
    whatever the previous iteration left there"""


class Stale(object):
    """stands for "some value left over from an earlier iteration": any attempt to look at it raises StaleUse"""

    def _use(self, *a, **k):
        raise StaleUse()

    __bool__ = __eq__ = __ne__ = __lt__ = __le__ = __gt__ = __ge__ = __len__ = __iter__ = __contains__ = _use
    __getitem__ = __call__ = __add__ = __radd__ = __sub__ = __rsub__ = __mod__ = __rmod__ = __int__ = __index__ = _use
    __str__ = __bytes__ = __format__ = _use
    __hash__ = None

    def __getattr__(self, name):
        if name.startswith('__') and name.endswith('__'):
            raise AttributeError(name)
        raise StaleUse()

    def __repr__(self):
        return '<stale local>'


STALE = Stale()


def stale_locals(info, known):
    """{name: STALE} for every local of the function that is not part of the stated loop state"""
    return {n: STALE for n in info['names'] if n not in known and n != 'self'}


def loop_step(func, index=0, modname=None):
    """step(**state, _sx_yield_=list) -> (kind, locals) for the index-th
    top-level loop of func.  kind is 'next' | 'break'; a `return` inside the
    loop body is not supported (none occurs in the extracted loops)."""
    try:
        src = textwrap.dedent(inspect.getsource(func))
        fdef = ast.parse(src).body[0]
    except (OSError, TypeError, SyntaxError) as e:
        raise ExtractError(str(e))
    loops = [n for n in fdef.body if isinstance(n, (ast.For, ast.While))]
    if index >= len(loops):
        raise ExtractError('no top-level loop #%d in %s' % (index, func.__name__))
    loop = loops[index]
    names = sorted({n.id for n in ast.walk(fdef) if isinstance(n, ast.Name) and isinstance(n.ctx, ast.Store)}
                   | {a.arg for a in fdef.args.args})
    instr = Instr(modname or func.__module__)
    instr.stack = [func.__qualname__ + '<step>']
    body = [instr.visit(s) for s in loop.body]            # instrument first ...
    r = _Ret(names)
    body = [r.visit(s) for s in body]                      # ... then add un-instrumented returns
    body.append(r._ret('next'))
    # locals are read through a snapshot taken right before returning
    fin = []
    for s in body:
        fin.append(s)
    # replace `_sx_locals_` by a call to builtins locals() (not instrumented)
    class _Loc(ast.NodeTransformer):
        def visit_Name(self, node):
            if node.id == '_sx_locals_':
                return ast.copy_location(ast.Call(func=ast.Name('locals', ast.Load()), args=[], keywords=[]), node)
            return node
    fin = [_Loc().visit(s) for s in fin]
    args = ast.arguments(posonlyargs=[], args=[ast.arg(n) for n in names] + [ast.arg('_sx_yield_')],
                         kwonlyargs=[], kw_defaults=[], defaults=[ast.Constant(None)] * (len(names) + 1))
    new = ast.FunctionDef(name='_sx_step_', args=args, body=fin, decorator_list=[], type_params=[])
    mod = ast.Module(body=[new], type_ignores=[])
    ast.fix_missing_locations(mod)
    ns = dict(func.__globals__)
    ns.update(HELPERS)
    exec(compile(mod, inspect.getsourcefile(func) or '<sx>', 'exec'), ns)
    info = {'names': names, 'loop_line': loop.lineno,
            'iter': ast.unparse(loop.iter) if isinstance(loop, ast.For) else None,
            'target': ast.unparse(loop.target) if isinstance(loop, ast.For) else None,
            'test': ast.unparse(loop.test) if isinstance(loop, ast.While) else None,
            'pre': [ast.unparse(s) for s in fdef.body[:fdef.body.index(loop)]
                    if not (isinstance(s, ast.Expr) and isinstance(s.value, ast.Constant))],
            'post': [ast.unparse(s) for s in fdef.body[fdef.body.index(loop) + 1:]]}
    return ns['_sx_step_'], info


def surround(func, index=0, modname=None):
    """(prologue, epilogue) functions of func around its index-th top-level
    loop: prologue() -> locals dict; epilogue(**locals) -> return value."""
    src = textwrap.dedent(inspect.getsource(func))
    fdef = ast.parse(src).body[0]
    loops = [n for n in fdef.body if isinstance(n, (ast.For, ast.While))]
    loop = loops[index]
    i = fdef.body.index(loop)
    names = sorted({n.id for n in ast.walk(fdef) if isinstance(n, ast.Name) and isinstance(n.ctx, ast.Store)}
                   | {a.arg for a in fdef.args.args})
    instr = Instr(modname or func.__module__)
    instr.stack = [func.__qualname__ + '<post>']
    post = [instr.visit(s) for s in fdef.body[i + 1:]]
    args = ast.arguments(posonlyargs=[], args=[ast.arg(n) for n in names], kwonlyargs=[], kw_defaults=[],
                         defaults=[ast.Constant(None)] * len(names))
    if not post:
        post = [ast.Return(ast.Constant(None))]
    new = ast.FunctionDef(name='_sx_post_', args=args, body=post, decorator_list=[], type_params=[])
    mod = ast.Module(body=[new], type_ignores=[])
    ast.fix_missing_locations(mod)
    ns = dict(func.__globals__)
    ns.update(HELPERS)
    exec(compile(mod, inspect.getsourcefile(func) or '<sx>', 'exec'), ns)
    return ns['_sx_post_'], names
