"""Bit-exact models of the stateless text codecs pydiffx is exercised with.

Strict error handling only.  Modelled: ascii, latin-1, utf-8, utf-8-sig,
utf-16 / -le / -be, utf-32 / -le / -be.  Codec *names* are resolved through the
platform (`codecs.lookup(name).name`) when concrete, or through
`sx.codecnames` when the spelling is symbolic (C15).  Any other codec is outside
the bit-exact model: `Unmodelled`, unless the operand is concrete (then native).
"""
import codecs as _codecs
import sys

import z3

from .core import (_br, Ctx, SSeq, SInt, Unmodelled, conj, disj, el_eq, lift, mk_seq, neg, rng)

CANON = {
    'ascii': 'ascii', 'iso8859-1': 'latin-1', 'utf-8': 'utf-8', 'utf-8-sig': 'utf-8-sig',
    'utf-16': 'utf-16', 'utf-16-le': 'utf-16-le', 'utf-16-be': 'utf-16-be',
    'utf-32': 'utf-32', 'utf-32-le': 'utf-32-le', 'utf-32-be': 'utf-32-be',
}
MODELLED = sorted(set(CANON.values()))
NATIVE_LE = sys.byteorder == 'little'

NAME_RESOLVER = None      # installed by sx.codecnames for symbolic spellings


def canon(name):
    """canonical model name for a codec name, or None if outside the model;
    raises LookupError exactly when the platform does"""
    if isinstance(name, SSeq):
        if name.kind is not str:
            raise TypeError("encode() argument 'encoding' must be str, not bytes")
        if NAME_RESOLVER is None:
            from . import codecnames
            codecnames.install()
        return NAME_RESOLVER(name)
    if not isinstance(name, str):
        raise TypeError('encode() argument \'encoding\' must be str, not %s' % type(name).__name__)
    info = _codecs.lookup(name)      # LookupError for unknown names, as the real call
    return CANON.get(info.name), info


def _err_enc(enc):
    raise UnicodeEncodeError(enc, 'x', 0, 1, 'sx model: unencodable')


def _err_dec(enc):
    raise UnicodeDecodeError(enc, b'x', 0, 1, 'sx model: undecodable')


def _c32(e):
    return z3.BitVecVal(e, 32) if isinstance(e, int) else e


def _byte(e, shift):
    if isinstance(e, int):
        return (e >> shift) & 0xff
    return z3.simplify(z3.Extract(shift + 7, shift, e))


def _w(e):
    return e if isinstance(e, int) else z3.ZeroExt(24, e)


def _is_sur(c):
    return rng(c, 0xd800, 0xdfff)


_BOMLESS = {'utf-16': 'utf-16-le', 'utf-32': 'utf-32-le', 'utf-8-sig': 'utf-8'}     # little-endian platform (checked below)
_BOM = {'utf-16': [0xff, 0xfe], 'utf-32': [0xff, 0xfe, 0, 0], 'utf-8-sig': [0xef, 0xbb, 0xbf]}


def _hexdigits(c, n):
    """n lower-case hex digits of code point c (int or BV32) as byte elements"""
    out = []
    for i in range(n - 1, -1, -1):
        if isinstance(c, int):
            out.append(ord('%x' % ((c >> (4 * i)) & 15)))
        else:
            nib = z3.ZeroExt(4, z3.Extract(4 * i + 3, 4 * i, c))
            out.append(z3.simplify(z3.If(z3.ULT(nib, 10), nib + 48, nib + 87)))
    return out


def _encode_with_handler(s, enc, errors):
    """str.encode(enc, errors) for errors in ignore / replace / backslashreplace / xmlcharrefreplace: encodable runs go
    through the strict model, each unencodable character through the handler's replacement text (ASCII), exactly as
    the codec machinery does"""
    import sys
    if sys.byteorder != 'little':
        raise Unmodelled('error handlers on a big-endian platform')
    if errors not in ('ignore', 'replace', 'backslashreplace', 'xmlcharrefreplace'):
        raise Unmodelled('encode errors=%r' % (errors,))
    inner = _BOMLESS.get(enc, enc)
    out = list(_BOM.get(enc, []))
    run = []

    def flush():
        if run:
            out.extend(lift(encode(mk_seq(run, str), inner)).el)
            del run[:]
    for c in lift(s).el:
        if enc == 'ascii':
            okc = (c < 128) if isinstance(c, int) else z3.ULT(c, 128)
        elif enc == 'latin-1':
            okc = (c < 256) if isinstance(c, int) else z3.ULT(c, 256)
        else:
            okc = neg(_is_sur(c))
        if _br(okc):
            run.append(c)
            continue
        flush()
        if errors == 'ignore':
            continue
        if errors == 'replace':
            rep = [63]
        elif errors == 'backslashreplace':
            if _br((c < 0x100) if isinstance(c, int) else z3.ULT(c, 0x100)):
                rep = [92, 120] + _hexdigits(c, 2)
            elif _br((c < 0x10000) if isinstance(c, int) else z3.ULT(c, 0x10000)):
                rep = [92, 117] + _hexdigits(c, 4)
            else:
                rep = [92, 85] + _hexdigits(c, 8)
        else:
            v = c if isinstance(c, int) else SInt(z3.BV2Int(c)).concretize()
            rep = list(('&#%d;' % v).encode('ascii'))
        # the replacement is ASCII text, itself encoded in the target codec
        if inner in ('ascii', 'latin-1', 'utf-8'):
            out.extend(rep)
        else:
            unit = 2 if inner.startswith('utf-16') else 4
            for b in rep:
                cell = [b] + [0] * (unit - 1)
                out.extend(cell if inner.endswith('le') else cell[::-1])
    flush()
    return mk_seq(out, bytes)


def encode(s, name, errors='strict'):
    if errors != 'strict':
        r = canon(name)
        enc = r[0] if isinstance(r, tuple) else r
        if not isinstance(s, SSeq) and not isinstance(name, SSeq):
            return s.encode(name, errors)
        if enc is None:
            raise Unmodelled('encode errors=%r for a codec outside the bit-exact model' % (errors,))
        return _encode_with_handler(s, enc, errors)
    r = canon(name)
    if isinstance(r, tuple):
        enc, info = r
    else:
        enc, info = r, None
    if enc is None:
        if not isinstance(s, SSeq):
            if isinstance(name, SSeq):
                _text_only(info, 'encode')
                return info.encode(s)[0]
            return s.encode(name)
        return _table_encode(s, name, info)
    s = lift(s)
    ctx = Ctx.cur
    br = _br
    out = []
    if enc in ('ascii', 'latin-1'):
        lim = 128 if enc == 'ascii' else 256
        for c in s.el:
            if not br((c < lim) if isinstance(c, int) else z3.ULT(c, lim)):
                _err_enc(enc)
            out.append(_byte(c, 0))
        return mk_seq(out, bytes)
    if enc in ('utf-8', 'utf-8-sig'):
        if enc == 'utf-8-sig':
            out = [0xef, 0xbb, 0xbf]
        for c in s.el:
            cc = _c32(c)

            def lt(v):
                return (c < v) if isinstance(c, int) else z3.ULT(cc, v)

            def sh(n, mask, orv):
                if isinstance(c, int):
                    return ((c >> n) & mask) | orv
                return z3.simplify(z3.Extract(7, 0, (z3.LShR(cc, n) & mask) | orv))
            if br(lt(0x80)):
                out.append(_byte(c, 0))
            elif br(lt(0x800)):
                out += [sh(6, 0x1f, 0xc0), sh(0, 0x3f, 0x80)]
            elif br(lt(0x10000)):
                if br(_is_sur(c)):
                    _err_enc(enc)
                out += [sh(12, 0x0f, 0xe0), sh(6, 0x3f, 0x80), sh(0, 0x3f, 0x80)]
            else:
                out += [sh(18, 0x07, 0xf0), sh(12, 0x3f, 0x80), sh(6, 0x3f, 0x80), sh(0, 0x3f, 0x80)]
        return mk_seq(out, bytes)
    if enc.startswith('utf-16'):
        le = NATIVE_LE if enc == 'utf-16' else enc.endswith('le')
        if enc == 'utf-16':
            out = [0xff, 0xfe] if le else [0xfe, 0xff]

        def unit(u):
            lo, hi = _byte(u, 0), _byte(u, 8)
            return [lo, hi] if le else [hi, lo]
        for c in s.el:
            cc = _c32(c)
            if br((c < 0x10000) if isinstance(c, int) else z3.ULT(cc, 0x10000)):
                if br(_is_sur(c)):
                    _err_enc(enc)
                out += unit(c)
            else:
                if isinstance(c, int):
                    v = c - 0x10000
                    out += unit(0xd800 | (v >> 10)) + unit(0xdc00 | (v & 0x3ff))
                else:
                    v = cc - 0x10000
                    out += unit(z3.simplify(0xd800 | z3.LShR(v, 10))) + unit(z3.simplify(0xdc00 | (v & 0x3ff)))
        return mk_seq(out, bytes)
    if enc.startswith('utf-32'):
        le = NATIVE_LE if enc == 'utf-32' else enc.endswith('le')
        if enc == 'utf-32':
            out = [0xff, 0xfe, 0, 0] if le else [0, 0, 0xfe, 0xff]
        for c in s.el:
            if br(_is_sur(c)):
                _err_enc(enc)
            bs = [_byte(c, 0), _byte(c, 8), _byte(c, 16), _byte(c, 24)]
            out += bs if le else bs[::-1]
        return mk_seq(out, bytes)
    raise Unmodelled('codec %s' % enc)


def decode(s, name, errors='strict'):
    if errors == 'replace':
        r = canon(name)
        enc = r[0] if isinstance(r, tuple) else r
        if not isinstance(s, SSeq):
            return s.decode(name, errors)
        if enc == 'ascii':
            # each undecodable byte becomes U+FFFD (length-preserving)
            return mk_seq([e if isinstance(e, int) and e < 128 else (0xfffd if isinstance(e, int) else
                           z3.If(z3.ULT(e, 128), z3.ZeroExt(24, e), z3.BitVecVal(0xfffd, 32))) for e in s.el], str)
        if enc == 'latin-1':
            return mk_seq([_w(e) for e in s.el], str)
        raise Unmodelled('decode errors=replace for %s' % enc)
    if errors != 'strict':
        raise Unmodelled('decode errors=%r' % (errors,))
    r = canon(name)
    if isinstance(r, tuple):
        enc, info = r
    else:
        enc, info = r, None
    if enc is None:
        if not isinstance(s, SSeq):
            if isinstance(name, SSeq):
                _text_only(info, 'decode')
                return info.decode(s)[0]
            return s.decode(name)
        return _table_decode(s, name, info)
    s = lift(s)
    ctx = Ctx.cur
    br = _br
    el = list(s.el)
    n = len(el)
    out = []
    if enc == 'latin-1':
        return mk_seq([_w(e) for e in el], str)
    if enc == 'ascii':
        if not br(conj(rng(e, 0, 127) for e in el)):
            _err_dec(enc)
        return mk_seq([_w(e) for e in el], str)
    if enc in ('utf-8', 'utf-8-sig'):
        i = 0
        if enc == 'utf-8-sig' and n >= 3 and br(conj([el_eq(el[0], 0xef), el_eq(el[1], 0xbb), el_eq(el[2], 0xbf)])):
            i = 3

        def zb(x):
            return z3.BitVecVal(x, 8) if isinstance(x, int) else x

        def comb(parts):
            if all(isinstance(e, int) for e, _, _ in parts):
                v = 0
                for e, m, sh in parts:
                    v |= (e & m) << sh
                return v
            v = z3.BitVecVal(0, 32)
            for e, m, sh in parts:
                v = v | ((_c32(e) if isinstance(e, int) else z3.ZeroExt(24, e)) & m) << sh
            return z3.simplify(v)
        while i < n:
            b0 = el[i]
            if br(rng(b0, 0, 0x7f)):
                out.append(_w(b0))
                i += 1
            elif br(rng(b0, 0xc2, 0xdf)):
                if i + 1 >= n or not br(rng(el[i + 1], 0x80, 0xbf)):
                    _err_dec(enc)
                out.append(comb([(b0, 0x1f, 6), (el[i + 1], 0x3f, 0)]))
                i += 2
            elif br(rng(b0, 0xe0, 0xef)):
                if i + 2 >= n:
                    _err_dec(enc)
                lo = z3.If(zb(b0) == 0xe0, z3.BitVecVal(0xa0, 8), z3.BitVecVal(0x80, 8))
                hi = z3.If(zb(b0) == 0xed, z3.BitVecVal(0x9f, 8), z3.BitVecVal(0xbf, 8))
                ok = z3.And(z3.UGE(zb(el[i + 1]), lo), z3.ULE(zb(el[i + 1]), hi),
                            z3.UGE(zb(el[i + 2]), 0x80), z3.ULE(zb(el[i + 2]), 0xbf))
                if not br(ok):
                    _err_dec(enc)
                out.append(comb([(b0, 0x0f, 12), (el[i + 1], 0x3f, 6), (el[i + 2], 0x3f, 0)]))
                i += 3
            elif br(rng(b0, 0xf0, 0xf4)):
                if i + 3 >= n:
                    _err_dec(enc)
                lo = z3.If(zb(b0) == 0xf0, z3.BitVecVal(0x90, 8), z3.BitVecVal(0x80, 8))
                hi = z3.If(zb(b0) == 0xf4, z3.BitVecVal(0x8f, 8), z3.BitVecVal(0xbf, 8))
                ok = z3.And(z3.UGE(zb(el[i + 1]), lo), z3.ULE(zb(el[i + 1]), hi),
                            z3.UGE(zb(el[i + 2]), 0x80), z3.ULE(zb(el[i + 2]), 0xbf),
                            z3.UGE(zb(el[i + 3]), 0x80), z3.ULE(zb(el[i + 3]), 0xbf))
                if not br(ok):
                    _err_dec(enc)
                out.append(comb([(b0, 0x07, 18), (el[i + 1], 0x3f, 12), (el[i + 2], 0x3f, 6), (el[i + 3], 0x3f, 0)]))
                i += 4
            else:
                _err_dec(enc)
        return mk_seq(out, str)
    if enc.startswith('utf-16'):
        le = NATIVE_LE if enc == 'utf-16' else enc.endswith('le')
        if enc == 'utf-16' and n >= 2:
            if br(conj([el_eq(el[0], 0xff), el_eq(el[1], 0xfe)])):
                el = el[2:]
                le = True
            elif br(conj([el_eq(el[0], 0xfe), el_eq(el[1], 0xff)])):
                el = el[2:]
                le = False

        def unit(j):
            a, b = (el[j], el[j + 1]) if le else (el[j + 1], el[j])
            if isinstance(a, int) and isinstance(b, int):
                return a | (b << 8)
            return z3.simplify(_c32(a) if isinstance(a, int) else z3.ZeroExt(24, a)) | \
                (z3.simplify(_c32(b) if isinstance(b, int) else z3.ZeroExt(24, b)) << 8)
        i = 0
        while i < len(el):
            if i + 1 >= len(el):
                _err_dec(enc)
            u = unit(i)
            if br(rng(u, 0xd800, 0xdbff)):
                if i + 3 >= len(el):
                    _err_dec(enc)
                u2 = unit(i + 2)
                if not br(rng(u2, 0xdc00, 0xdfff)):
                    _err_dec(enc)
                if isinstance(u, int) and isinstance(u2, int):
                    out.append(0x10000 + (((u & 0x3ff) << 10) | (u2 & 0x3ff)))
                else:
                    out.append(z3.simplify(0x10000 + (((_c32(u) & 0x3ff) << 10) | (_c32(u2) & 0x3ff))))
                i += 4
            elif br(rng(u, 0xdc00, 0xdfff)):
                _err_dec(enc)
            else:
                out.append(u if isinstance(u, int) else z3.simplify(u))
                i += 2
        return mk_seq(out, str)
    if enc.startswith('utf-32'):
        le = NATIVE_LE if enc == 'utf-32' else enc.endswith('le')
        if enc == 'utf-32' and n >= 4:
            if br(conj([el_eq(el[0], 0xff), el_eq(el[1], 0xfe), el_eq(el[2], 0), el_eq(el[3], 0)])):
                el = el[4:]
                le = True
            elif br(conj([el_eq(el[0], 0), el_eq(el[1], 0), el_eq(el[2], 0xfe), el_eq(el[3], 0xff)])):
                el = el[4:]
                le = False
        i = 0
        while i < len(el):
            if i + 3 >= len(el):
                _err_dec(enc)
            bs = el[i:i + 4] if le else el[i:i + 4][::-1]
            if all(isinstance(b, int) for b in bs):
                u = bs[0] | (bs[1] << 8) | (bs[2] << 16) | (bs[3] << 24)
            else:
                u = z3.simplify(z3.Concat(*[z3.BitVecVal(b, 8) if isinstance(b, int) else b for b in bs[::-1]]))
            bad = disj([_is_sur(u), (u > 0x10ffff) if isinstance(u, int) else z3.UGT(u, 0x10ffff)])
            if br(bad):
                _err_dec(enc)
            out.append(u)
            i += 4
        return mk_seq(out, str)
    raise Unmodelled('codec %s' % enc)


# --------------------------------------------------------------- other codecs
# Codecs outside the bit-exact model.  pydiffx only needs the newline byte
# strings of such a codec (C15); content in these codecs is handled for
# elements that the solver has pinned to a single value, otherwise the path is
# Unmodelled.

def _pinned(s):
    ctx = Ctx.cur
    m = ctx.model()
    if m is None:
        from .core import PathAbort
        raise PathAbort('infeasible')
    vals = []
    for e in s.el:
        if isinstance(e, int):
            vals.append(e)
            continue
        v = m.eval(e, True).as_long()
        if ctx.check(e != v) != z3.unsat:
            raise Unmodelled('symbolic content in a codec outside the bit-exact model')
        vals.append(v)
    return vals


def _text_only(info, what):
    # str.encode / bytes.decode refuse codecs that are not text encodings (uu, hex, base64, zlib, rot13 ...)
    if info is not None and not getattr(info, '_is_text_encoding', True):
        raise LookupError("'%s' is not a text encoding; use codecs.%s() to handle arbitrary codecs" % (info.name, what))


def _table_encode(s, name, info):
    if info is None:
        import codecs as _c
        info = _c.lookup(name)
    _text_only(info, 'encode')
    vals = _pinned(s)
    return info.encode(''.join(map(chr, vals)))[0]


def _table_decode(s, name, info):
    if info is None:
        import codecs as _c
        info = _c.lookup(name)
    _text_only(info, 'decode')
    vals = _pinned(s)
    return info.decode(bytes(vals))[0]


# ------------------------------------------------------------------ incremental decoders

def _utf8_prefix_ok(t):
    """condition: the 1..3 bytes t are a proper prefix of some valid UTF-8 sequence"""
    def zb(x):
        return z3.BitVecVal(x, 8) if isinstance(x, int) else x
    b0 = zb(t[0])
    if len(t) == 1:
        return z3.And(z3.UGE(b0, 0xc2), z3.ULE(b0, 0xf4))
    b1 = zb(t[1])
    lo = z3.If(b0 == 0xe0, z3.BitVecVal(0xa0, 8), z3.If(b0 == 0xf0, z3.BitVecVal(0x90, 8), z3.BitVecVal(0x80, 8)))
    hi = z3.If(b0 == 0xed, z3.BitVecVal(0x9f, 8), z3.If(b0 == 0xf4, z3.BitVecVal(0x8f, 8), z3.BitVecVal(0xbf, 8)))
    second = z3.And(z3.UGE(b1, lo), z3.ULE(b1, hi))
    if len(t) == 2:
        return z3.And(z3.UGE(b0, 0xe0), z3.ULE(b0, 0xf4), second)
    b2 = zb(t[2])
    return z3.And(z3.UGE(b0, 0xf0), z3.ULE(b0, 0xf4), second, z3.UGE(b2, 0x80), z3.ULE(b2, 0xbf))


class SymIncrementalDecoder(object):
    """codecs.getincrementaldecoder(name)(errors) for the bit-exact codecs: decode(input, final=False) returns the
    text of the longest decodable prefix and keeps an incomplete trailing sequence (that may still become valid) for
    the next call; final=True makes a leftover an error.  BOM-sniffing variants fix their byte order on the first
    complete unit."""

    def __init__(self, name, errors='strict'):
        if errors != 'strict':
            raise Unmodelled('incremental decoder errors=%r' % (errors,))
        r = canon(name)
        self.enc = r[0] if isinstance(r, tuple) else r
        self.name = name
        self.real = None
        if self.enc is None:
            import codecs as _c
            self.real = _c.getincrementaldecoder(name if not isinstance(name, SSeq) else r[1].name)(errors)
        self.buf = ()
        self.started = False

    def reset(self):
        self.buf = ()
        self.started = False
        if self.real is not None:
            self.real.reset()

    def decode(self, data, final=False):
        if self.real is not None:
            if isinstance(data, SSeq):
                raise Unmodelled('incremental decoder of a codec outside the bit-exact model on symbolic bytes')
            return self.real.decode(data, final)
        el = self.buf + (tuple(lift(data).el) if len(data) else ())
        enc = self.enc
        n = len(el)
        if enc in ('ascii', 'latin-1'):
            self.buf = ()
            return decode(mk_seq(el, bytes), enc) if n else ''
        if enc in ('utf-8', 'utf-8-sig'):
            inner = 'utf-8'
            if enc == 'utf-8-sig' and not self.started:
                # the BOM is sniffed once 3 bytes are there (or the stream ends)
                if n < 3:
                    # could still be a BOM prefix?  (CPython does not look at `final` here)
                    bom = (0xef, 0xbb, 0xbf)
                    if _br(conj(el_eq(a, b) for a, b in zip(el, bom))):
                        self.buf = el
                        return ''
                    self.started = True
                else:
                    self.started = True
                    if n >= 3 and _br(conj([el_eq(el[0], 0xef), el_eq(el[1], 0xbb), el_eq(el[2], 0xbf)])):
                        el = el[3:]
                        n -= 3
            for k in range(0, min(3, n) + 1):
                if k and final:
                    break
                if k and not _br(_utf8_prefix_ok(el[n - k:])):
                    continue
                head = el[:n - k]
                try:
                    text = decode(mk_seq(head, bytes), inner) if head else ''
                except UnicodeDecodeError:
                    if k == 0:
                        continue          # perhaps only the tail is incomplete
                    raise
                self.buf = tuple(el[n - k:]) if k else ()
                return text
            _err_dec(enc)
        unit = 2 if enc.startswith('utf-16') else 4
        inner = enc
        nobom = False
        if enc in ('utf-16', 'utf-32'):
            if not self.started:
                if n < unit and not final:
                    self.buf = el
                    return ''
                self.started = True
                boms = {2: ((0xff, 0xfe), (0xfe, 0xff)), 4: ((0xff, 0xfe, 0, 0), (0, 0, 0xfe, 0xff))}[unit]
                self.order = 'le' if NATIVE_LE else 'be'
                if n >= unit:
                    if _br(conj(el_eq(a, b) for a, b in zip(el, boms[0]))):
                        self.order = 'le'
                        el = el[unit:]
                    elif _br(conj(el_eq(a, b) for a, b in zip(el, boms[1]))):
                        self.order = 'be'
                        el = el[unit:]
                    else:
                        # unlike bytes.decode('utf-16'), the incremental decoder insists on a BOM (checked after the
                        # first chunk has been decoded in native order, so decoding errors come first)
                        nobom = True
                    n = len(el)
            inner = '%s-%s' % (enc, self.order)
        keep = n % unit
        if unit == 2 and n - keep >= 2:
            # a trailing high surrogate waits for its partner
            hi_b = el[n - keep - 1] if inner.endswith('le') else el[n - keep - 2]
            if not final and _br(rng(hi_b, 0xd8, 0xdb)):
                keep += 2
        if final and keep:
            _err_dec(enc)
        head = el[:n - keep]
        text = decode(mk_seq(head, bytes), inner) if head else ''
        if nobom:
            if len(head) >= unit:
                raise UnicodeError('%s stream does not start with BOM' % enc.upper())
            self.started = False          # nothing consumed yet: sniff again on the next call
        self.buf = tuple(el[n - keep:]) if keep else ()
        return text

    def getstate(self):
        raise Unmodelled('incremental decoder getstate')

    setstate = getstate


def incremental_decoder_factory(name):
    canon(name)           # LookupError for unknown names, as codecs.getincrementaldecoder

    def factory(errors='strict'):
        return SymIncrementalDecoder(name, errors)
    return factory
