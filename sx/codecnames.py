"""Codec-name resolution for *symbolic* spellings (C15, C08).

Not re-invented: an instrumented private copy of the platform's pure-Python
`encodings.normalize_encoding` runs on the symbolic name (after the C-level
lower-casing, modelled per character), then the platform's alias table and the
list of codec modules are consulted with solver-decided comparisons.  A path
ends with a concrete resolved codec or LookupError."""
import codecs
import encodings
import encodings.aliases
import pkgutil

import z3

from . import codecs_model
from .core import Ctx, SSeq, Unmodelled, _br, lift, mk_seq, rng
from .instrument import instrument_function

_norm = None
ALIASES = dict(encodings.aliases.aliases)
MODULES = sorted(m.name for m in pkgutil.iter_modules(encodings.__path__) if m.name != 'aliases')


def _normalize():
    global _norm
    if _norm is None:
        _norm = instrument_function(encodings.normalize_encoding)
    return _norm


def lower(s):
    """the codec registry lower-cases the name (and turns spaces into hyphens)"""
    out = []
    for e in s.el:
        if isinstance(e, int):
            c = e + 32 if 65 <= e <= 90 else (45 if e == 32 else e)
        else:
            c = z3.If(z3.And(z3.UGE(e, 65), z3.ULE(e, 90)), e + 32, z3.If(e == 32, z3.BitVecVal(45, e.size()), e))
        out.append(c)
    return mk_seq(out, str)


def _lookup(keys, key):
    """first table key equal to the (symbolic) key, solver-decided; one query
    decides "none matches", then one fork per feasible key"""
    if not isinstance(key, SSeq):
        return key if key in keys else None
    n = len(key.el)
    cands = [k for k in keys if len(k) == n]
    ctx = Ctx.cur
    while cands:
        conds = [(k, key.eq_cond(k)) for k in cands]
        conds = [(k, c) for k, c in conds if c is not False]
        if not conds:
            return None
        for k, c in conds:
            if c is True:
                return k
        if not _br(z3.Or(*[c for _, c in conds])):
            return None
        # some key matches on this path: find one through the model, fork on it.  The chosen
        # key is recorded in the decision (tag) so that re-execution of a prefix does not
        # depend on which model the solver happens to return
        hit = None
        if ctx.pos < len(ctx.prefix) and ctx.prefix[ctx.pos][2] is not None:
            tag = ctx.prefix[ctx.pos][2]
            for k, c in conds:
                if k == tag:
                    hit = (k, c)
        if hit is None:
            m = ctx.model()
            for k, c in conds:
                if m is not None and z3.is_true(m.eval(c, True)):
                    hit = (k, c)
                    break
        if hit is None:
            hit = conds[0]
        if _br(hit[1], hit[0]):
            return hit[0]
        cands = [k for k, _ in conds if k != hit[0]]
    return None


def resolve_module(name):
    """encodings module name for a (symbolic) codec name, or LookupError.  Memoised per path: once the
    path condition has fixed what the name resolves to, later uses on the same path need no solver."""
    s = lift(name)
    ctx = Ctx.cur
    cache = getattr(ctx, 'codec_cache', None)
    if cache is None:
        cache = ctx.codec_cache = {}
    key = tuple(e if isinstance(e, int) else ('z', e.get_id()) for e in s.el)
    if key in cache:
        r = cache[key]
        if isinstance(r, Exception):
            raise r
        return r
    try:
        r = _resolve_module(s)
    except (LookupError, ValueError) as e:
        cache[key] = e
        raise
    cache[key] = r
    return r


def _resolve_module(s):
    for e in s.el:
        if not isinstance(e, int) and _br(z3.UGE(e, 128)):
            raise LookupError('unknown encoding (non-ASCII name)')
    if any(isinstance(e, int) and e == 0 for e in s.el) or any(
            not isinstance(e, int) and _br(e == 0) for e in s.el):
        raise ValueError('embedded null character')
    norm = _normalize()(lower(s))
    a = _lookup(sorted(ALIASES), norm)
    if a is None:
        nd = lift(norm).replace('.', '_') if isinstance(norm, SSeq) else norm.replace('.', '_')
        a = _lookup(sorted(ALIASES), nd)
    cands = ([ALIASES[a]] if a is not None else [])
    m = _lookup(MODULES, norm)
    if m is not None:
        cands.append(m)
    for modname in cands:
        if not modname or '.' in modname:
            continue
        try:
            info = codecs.lookup(modname)
        except LookupError:
            continue
        return modname, info
    raise LookupError('unknown encoding: <symbolic>')


def resolver(name):
    modname, info = resolve_module(name)
    return codecs_model.CANON.get(info.name), info


def install():
    codecs_model.NAME_RESOLVER = resolver
