"""Loading the real source under an AST instrumentation pass.

Every module under the chosen package prefixes is read from the working tree,
rewritten generically (calls, `%`, `in`, dict displays, function entry marks)
and compiled in memory -- no .pyc is read or written, so the encoding is
regenerated from the current source on every run.  The pass does not know
pydiffx: everything else is the unmodified statement sequence, run by CPython.
"""
import ast
import builtins
import copy as _copy
import importlib.abc
import importlib.machinery
import io as _io
import json as _json
import re as _re
import sys
import types

import z3

from . import core
from .core import (Ctx, SBool, SBVInt, SInt, SSeq, Unmodelled, conj, disj, has_sym, is_sym, lift, mk_seq,
                   mkb, mki, rng)
from .regex import SPattern, nfa_formula
from .streams import SymStream

REACHED = core.REACHED

# hooks that harnesses may install: list of fn(f, a, k) -> (handled, result)
CALL_HOOKS = []


class SymDict(dict):
    """dict whose keys may be symbolic: association-list semantics with
    solver-decided key comparisons.  Hashable concrete keys are mirrored in the
    underlying dict storage so that C-level consumers (json, **kwargs, copy)
    see the same content."""

    def __init__(self, *a, **k):
        super().__init__()
        self._items = []
        self._nsym = 0
        if a or k:
            self.update(*a, **k)

    @staticmethod
    def _symkey(key):
        return isinstance(key, (SSeq, SInt))

    def _find(self, key):
        if self._nsym == 0 and not self._symkey(key):
            # fast path: all keys concrete
            try:
                if not dict.__contains__(self, key):
                    return None
            except TypeError:
                pass
        for it in self._items:
            eq = (it[0] == key)
            if eq is False:
                continue
            if eq is True or bool(eq):
                return it
        return None

    def __setitem__(self, key, value):
        it = self._find(key)
        if it is None:
            self._items.append([key, value])
            if self._symkey(key):
                self._nsym += 1
            else:
                dict.__setitem__(self, key, value)
        else:
            it[1] = value
            if not self._symkey(it[0]):
                dict.__setitem__(self, it[0], value)

    def __getitem__(self, key):
        it = self._find(key)
        if it is None:
            raise KeyError(key)
        return it[1]

    def get(self, key, default=None):
        it = self._find(key)
        return default if it is None else it[1]

    def __contains__(self, key):
        return self._find(key) is not None

    def __len__(self):
        return len(self._items)

    def __bool__(self):
        return bool(self._items)

    def items(self):
        return [tuple(i) for i in self._items]

    def keys(self):
        return [i[0] for i in self._items]

    def values(self):
        return [i[1] for i in self._items]

    def __iter__(self):
        return iter(self.keys())

    def __repr__(self):
        return '{%s}' % ', '.join('%r: %r' % (k, v) for k, v in self._items)

    def copy(self):
        d = SymDict()
        for k, v in self._items:
            d[k] = v
        return d

    __copy__ = copy

    def __deepcopy__(self, memo):
        d = SymDict()
        memo[id(self)] = d
        for k, v in self._items:
            d[k] = v if is_sym(v) else _copy.deepcopy(v, memo)
        return d

    def __reduce_ex__(self, proto):
        return (SymDict, (), None, None, iter(self.items()))

    def pop(self, key, *default):
        it = self._find(key)
        if it is None:
            if default:
                return default[0]
            raise KeyError(key)
        self._items.remove(it)
        if self._symkey(it[0]):
            self._nsym -= 1
        else:
            dict.__delitem__(self, it[0])
        return it[1]

    def popitem(self):
        if not self._items:
            raise KeyError('popitem(): dictionary is empty')
        k = self._items[-1][0]
        return k, self.pop(k)

    def __delitem__(self, key):
        self.pop(key)

    def update(self, *a, **kw):
        if a:
            other = a[0]
            if hasattr(other, 'keys'):
                for k in other.keys():
                    self[k] = other[k]
            else:
                for k, v in other:
                    self[k] = v
        for k, v in kw.items():
            self[k] = v

    def clear(self):
        self._items = []
        self._nsym = 0
        dict.clear(self)

    def setdefault(self, key, default=None):
        it = self._find(key)
        if it is None:
            self[key] = default
            return default
        return it[1]

    def eq_cond(self, other):
        """condition for equality with another mapping (no forking when all
        keys are concrete)"""
        if not isinstance(other, dict):
            return False
        if len(self) != len(other):
            return False
        if self._nsym or (isinstance(other, SymDict) and other._nsym):
            return None
        cs = []
        for k, v in self.items():
            if k not in other:
                return False
            cs.append(value_eq(other[k], v))
        return conj(cs)

    def __eq__(self, other):
        if not isinstance(other, dict):
            return NotImplemented
        c = self.eq_cond(other)
        if c is None:
            if len(self) != len(other):
                return False
            for k, v in self.items():
                if k not in other:
                    return False
                e = (other[k] == v)
                if e is False or (e is not True and not bool(e)):
                    return False
            return True
        return mkb(c)

    def __ne__(self, other):
        r = self.__eq__(other)
        if r is NotImplemented:
            return r
        if isinstance(r, bool):
            return not r
        return mkb(z3.Not(r.e))

    __hash__ = None

    def __or__(self, other):
        d = self.copy()
        d.update(other)
        return d


def value_eq(a, b):
    """condition: two values (native / shadow / containers thereof) are equal,
    with Python semantics, without forking where possible"""
    if isinstance(a, SSeq) or isinstance(b, SSeq):
        if isinstance(a, (SSeq, bytes, str)) and isinstance(b, (SSeq, bytes, str)):
            return lift(a).eq_cond(b)
        return False
    if isinstance(a, SInt) or isinstance(b, SInt):
        za, zb = SInt._z(a), SInt._z(b)
        if za is None or zb is None:
            return False
        return za == zb
    if isinstance(a, SBool) or isinstance(b, SBool):
        return core.iff(a, b) if isinstance(a, (bool, SBool)) and isinstance(b, (bool, SBool)) else False
    if isinstance(a, dict) and isinstance(b, dict):
        if len(a) != len(b):
            return False
        cs = []
        for k in a.keys():
            if k not in b:
                return False
            cs.append(value_eq(a[k], b[k]))
        return conj(cs)
    if isinstance(a, (list, tuple)) and isinstance(b, (list, tuple)):
        if type(a) is not type(b) and not (isinstance(a, list) and isinstance(b, list)) \
                and not (isinstance(a, tuple) and isinstance(b, tuple)):
            return False
        if len(a) != len(b):
            return False
        return conj(value_eq(x, y) for x, y in zip(a, b))
    r = (a == b)
    if isinstance(r, SBool):
        return r.e
    return bool(r)


def h_dict(keys, values):
    d = SymDict()
    for k, v in zip(keys, values):
        d[k] = v
    return d


# ------------------------------------------------------------------ int()

_INT_EXOTIC = {bytes: rb'[ \t\n\r\x0b\x0c]*[+-]?[0-9]+(?:_[0-9]+)*[ \t\n\r\x0b\x0c]*',
               str: r'[ \t\n\r\x0b\x0c]*[+-]?[0-9]+(?:_[0-9]+)*[ \t\n\r\x0b\x0c]*'}


_WSP = r'[ \t\n\r\x0b\x0c]*'
_INT16_EXOTIC = {str: _WSP + r'[+-]?(?:0[xX]_?)?[0-9a-fA-F]+(?:_[0-9a-fA-F]+)*' + _WSP}
_INT16_EXOTIC[bytes] = _INT16_EXOTIC[str].encode('ascii')


def sym_int_of(s, base=10):
    """int(<symbolic digit string>[, 16]): exact for plain digit strings, and for the signed /
    underscore / prefixed / whitespace-padded literals CPython also accepts (ASCII)."""
    ctx = Ctx.cur
    if base not in (10, 16):
        raise Unmodelled('int() with base %r' % (base,))
    if not s.el:
        raise ValueError("invalid literal for int() with base %d: ''" % base)
    if base == 10:
        isdig = conj(rng(e, 48, 57) for e in s.el)
    else:
        isdig = conj(disj([rng(e, 48, 57), rng(e, 65, 70), rng(e, 97, 102)]) for e in s.el)
    if ctx.branch(isdig):
        import sys as _sys
        lim = _sys.get_int_max_str_digits() if hasattr(_sys, 'get_int_max_str_digits') else 0
        if base == 10 and lim and len(s.el) > lim:
            # CPython >= 3.11: int() of a decimal string with more digits than sys.get_int_max_str_digits()
            raise ValueError('Exceeds the limit (%d digits) for integer string conversion: value has %d digits; use '
                             'sys.set_int_max_str_digits() to increase the limit' % (lim, len(s.el)))
        if base == 16 and len(s.el) <= 8:
            # stay in the bit-vector theory: nibbles of a 32-bit value
            v = z3.BitVecVal(0, 32)
            for e in s.el:
                if isinstance(e, int):
                    d = z3.BitVecVal(int(chr(e), 16), 32)
                else:
                    c = e if e.size() == 32 else z3.ZeroExt(24, e)
                    d = z3.If(z3.ULE(c, 57), c - 48, z3.If(z3.ULE(c, 70), c - 55, c - 87))
                v = (v << 4) | d
            v = z3.simplify(v)
            return v.as_long() if z3.is_bv_value(v) else SBVInt(v)
        v = 0
        for e in s.el:
            if isinstance(e, int):
                d = int(chr(e), base)
            elif base == 10:
                d = z3.BV2Int(e) - 48
            else:
                i = z3.BV2Int(e)
                d = z3.If(i <= 57, i - 48, z3.If(i <= 70, i - 55, i - 87))
            v = v * base + d
        return mki(v)
    if s.kind is str:
        # non-ASCII digits / whitespace are accepted by int(); outside the model
        if ctx.branch(disj(z3.UGE(e, 128) for e in s.el if not isinstance(e, int))):
            raise Unmodelled('int() of non-ASCII str')
    if ctx.branch(nfa_formula((_INT_EXOTIC if base == 10 else _INT16_EXOTIC)[s.kind], s.el)):
        # concretise: enumerate the literal (few characters)
        vals = []
        for e in s.el:
            vals.append(e if isinstance(e, int) else SInt(z3.BV2Int(e)).concretize())
        txt = bytes(vals) if s.kind is bytes else ''.join(map(chr, vals))
        return int(txt, base)
    raise ValueError('invalid literal for int() with base %d: <symbolic>' % base)


# ------------------------------------------------------------------ json stubs

class JsonStub:
    """nondeterministic contract stub for json.loads on symbolic text"""
    enabled = True
    exact = True


_detect_encoding = []


def _json_loads_sym(s, kw=None):
    kw = kw or {}
    ctx = Ctx.cur
    from .codecs_model import _pinned
    if s.kind is bytes:
        # json.loads(bytes): detect the encoding (instrumented copy of the platform's pure-Python
        # json.detect_encoding) and decode -- UnicodeDecodeError (a ValueError, but not a JSONDecodeError)
        # escapes exactly as in the real function; 'surrogatepass' is approximated by strict decoding
        if not _detect_encoding:
            _detect_encoding.append(instrument_function(_json.detect_encoding))
        enc = _detect_encoding[0](s)
        ctx.flag('approx:json-surrogatepass')
        s = lift(s).decode(enc)
        if not isinstance(s, SSeq):
            return _json.loads(s, **kw)
    try:
        vals = _pinned(s)           # content fully determined by the path condition: real json
    except Unmodelled:
        vals = None
    if vals is not None:
        return _json.loads(''.join(map(chr, vals)) if s.kind is str else bytes(vals), **kw)
    # not determined: CPython's pure-Python decoder under the same instrumentation (sx/jsonmodel.py)
    if JsonStub.exact:
        from . import jsonmodel
        try:
            return jsonmodel.loads(s, **kw)
        except Unmodelled as e:
            ctx.flag('json-model-declined:%s' % str(e)[:40])
    # fallback: exact on a small catalogue of JSON texts of this length
    # (an object, an array, a number -- padded with blanks), everything else is
    # *assumed* invalid.  Paths are flagged; only exception-type claims are made.
    if kw:
        raise Unmodelled('json.loads with keyword arguments on undetermined text')
    ctx.flag('stubbed:json.loads')
    L = len(s.el)
    mk = (lambda t: t) if s.kind is str else (lambda t: t.encode('ascii'))
    for body in ('{}', '[]', '0', '{"a": 1}', 'null'):
        for tail in ('\n', '\r\n'):
            if len(body) + len(tail) > L:
                continue
            cand = body + ' ' * (L - len(body) - len(tail)) + tail
            if bool(s == mk(cand)):
                return _json.loads(cand)
    ctx.flag('stubbed:json.loads:assumed-invalid')
    raise _json.JSONDecodeError('sx stub: assumed invalid', 'x', 0)


# ------------------------------------------------------------------ call dispatch

_STR_METHODS = {'join'}


def _seq_method(f, a, k):
    recv = f.__self__
    name = f.__name__
    if name == 'join':
        items = list(a[0])
        if any(hasattr(x, 'slen') for x in items):
            from .absstream import AbsParts
            if len(recv):
                raise Unmodelled('join of abstract bytes with a non-empty separator')
            out = AbsParts([])
            for x in items:
                out = out + x
            return True, out
        if any(isinstance(x, SSeq) for x in items):
            return True, lift(recv).join(items)
        return True, recv.join(items)
    if any(has_sym(x) for x in a) or any(has_sym(x) for x in k.values()):
        m = getattr(lift(recv), name, None)
        if m is None:
            raise Unmodelled('%s.%s with symbolic argument' % (type(recv).__name__, name))
        return True, m(*a, **k)
    return False, None


def _sp_bytesio(f, a, k):
    return SymStream(*a, **k)


def _sp_int(f, a, k):
    if a and isinstance(a[0], SInt):
        return a[0]
    if a and isinstance(a[0], SSeq):
        base = a[1] if len(a) > 1 else k.get('base', 10)
        if len(a) > 2 or (k and list(k) != ['base']) or type(base) is not int:
            raise Unmodelled('int() with unusual arguments')
        return sym_int_of(a[0], base)
    return f(*a, **k)


def _sp_chr(f, a, k):
    if a and isinstance(a[0], SInt):
        v = a[0]
        bv = getattr(v, 'bv', None)
        if bv is not None and bv.size() >= 32:
            if not bool(mkb(z3.ULE(bv, 0x10ffff))):
                raise ValueError('chr() arg not in range(0x110000)')
            return mk_seq((bv if bv.size() == 32 else z3.simplify(z3.Extract(31, 0, bv)),), str)
        if not bool(mkb(z3.And(v.e >= 0, v.e <= 0x10ffff))):
            raise ValueError('chr() arg not in range(0x110000)')
        return mk_seq((z3.simplify(z3.Int2BV(v.e, 32)),), str)
    return f(*a, **k)


def _sp_str(f, a, k):
    if a and is_sym(a[0]):
        if isinstance(a[0], SSeq) and a[0].kind is str and len(a) == 1:
            return a[0]
        if isinstance(a[0], SInt):
            return str(a[0].concretize())
        raise Unmodelled('str() of symbolic value')
    return f(*a, **k)


def _sp_bytes(f, a, k):
    if a and is_sym(a[0]):
        if isinstance(a[0], SSeq) and a[0].kind is bytes and len(a) == 1:
            return a[0]
        raise Unmodelled('bytes() of symbolic value')
    return f(*a, **k)


def _sp_bool(f, a, k):
    return bool(a[0]) if a else False


def _sp_dict(f, a, k):
    d = SymDict()
    d.update(*a, **k)
    return d


def _sp_container(f, a, k):
    if a and isinstance(a[0], SSeq):
        return f(iter(a[0]))
    return f(*a, **k)


def _sp_compile(f, a, k):
    return SPattern(_re.compile(*a, **k))


def _sp_re_func(f, a, k):
    # re.match(pattern, string, flags=0) and friends
    name = f.__name__
    flags = k.pop('flags', 0)
    pat = a[0]
    rest = list(a[1:])
    if name in ('sub', 'subn'):
        if len(rest) > 3:
            flags = rest.pop(3)
    elif name == 'split':
        if len(rest) > 2:
            flags = rest.pop(2)
    elif len(rest) > 1:
        flags = rest.pop(1)
    p = SPattern(_re.compile(pat, flags)) if not isinstance(pat, SPattern) else pat
    return getattr(p, name)(*rest, **k)


def _sp_len(f, a, k):
    if a and isinstance(a[0], SSeq):
        return len(a[0].el)
    if a and hasattr(a[0], 'slen'):
        return a[0].slen()
    return f(*a, **k)


def _sp_ord(f, a, k):
    if a and isinstance(a[0], SSeq):
        if len(a[0].el) != 1:
            raise TypeError('ord() expected a character')
        e = a[0].el[0]
        return e if isinstance(e, int) else SBVInt(e)
    return f(*a, **k)


def _sp_repr(f, a, k):
    if a and is_sym(a[0]):
        return '<sx:repr>'
    return f(*a, **k)


def _sp_minmax(f, a, k):
    xs = list(a[0]) if len(a) == 1 else list(a)
    if any(isinstance(x, SInt) for x in xs) and not k:
        m = xs[0]
        for x in xs[1:]:
            if bool(x < m) if f is builtins.min else bool(x > m):
                m = x
        return m
    if len(a) == 1:
        return f(xs, **k)
    return f(*a, **k)


def _sp_sum(f, a, k):
    xs = list(a[0])
    tot = a[1] if len(a) > 1 else 0
    for x in xs:
        tot = tot + x
    return tot


def _sp_json_loads(f, a, k):
    if a and isinstance(a[0], SSeq):
        if len(a) > 1:
            raise Unmodelled('json.loads with positional extras')
        return _json_loads_sym(a[0], k)
    return f(*a, **k)


def _concretize_ints(v):
    """symbolic ints inside a JSON value are enumerated (harnesses keep their ranges small);
    symbolic text is not modelled"""
    if isinstance(v, SInt):
        if _wide_range(v):
            raise Unmodelled('json.dumps of an unbounded symbolic integer')
        return v.concretize()
    if isinstance(v, (SSeq, SBool)):
        raise Unmodelled('json.dumps of a value containing symbolic text')
    if isinstance(v, dict):
        return {kk: _concretize_ints(x) for kk, x in v.items()}
    if isinstance(v, (list, tuple)):
        return [_concretize_ints(x) for x in v]
    return v


def _contains_sym_text(v):
    if isinstance(v, SSeq):
        return True
    if isinstance(v, dict):
        return any(_contains_sym_text(x) or _contains_sym_text(y) for x, y in v.items())
    if isinstance(v, (list, tuple)):
        return any(_contains_sym_text(x) for x in v)
    return False


def _sp_float(f, a, k):
    if a and isinstance(a[0], SSeq):
        from .codecs_model import _pinned
        vals = _pinned(a[0])
        return float(bytes(vals) if a[0].kind is bytes else ''.join(map(chr, vals)))
    if a and isinstance(a[0], SInt):
        return float(a[0].concretize())
    return f(*a, **k)


def _sp_json_dumps(f, a, k):
    if a and _contains_sym_text(a[0]) and JsonStub.exact:
        from . import jsonmodel
        return jsonmodel.dumps(_plain(a[0]), *a[1:], **k)
    if a and _contains_sym(a[0]):
        return f(_concretize_ints(a[0]), *a[1:], **k)
    if a and isinstance(a[0], dict):
        return f(_plain(a[0]), *a[1:], **k)
    return f(*a, **k)


def _plain(v):
    """SymDict -> dict (recursively) for C-level consumers"""
    if isinstance(v, dict):
        return {kk: _plain(x) for kk, x in v.items()}
    if isinstance(v, list):
        return [_plain(x) for x in v]
    if isinstance(v, tuple):
        return tuple(_plain(x) for x in v)
    return v


def _sp_codecs_lookup(f, a, k):
    if a and isinstance(a[0], SSeq):
        from . import codecnames
        return codecnames.resolve_module(a[0])[1]
    return f(*a, **k)


import codecs as _codecs_mod


def _sp_incdec(f, a, k):
    from .codecs_model import incremental_decoder_factory
    return incremental_decoder_factory(*a, **k)


SPECIAL = {
    _codecs_mod.lookup: _sp_codecs_lookup, _codecs_mod.getincrementaldecoder: _sp_incdec,
    _io.BytesIO: _sp_bytesio, int: _sp_int, str: _sp_str, bytes: _sp_bytes, bool: _sp_bool,
    dict: _sp_dict, list: _sp_container, tuple: _sp_container, set: _sp_container,
    frozenset: _sp_container,
    _re.compile: _sp_compile, _re.match: _sp_re_func, _re.search: _sp_re_func,
    _re.fullmatch: _sp_re_func, _re.sub: _sp_re_func, _re.finditer: _sp_re_func,
    _re.subn: _sp_re_func, _re.split: _sp_re_func, _re.findall: _sp_re_func,
    builtins.len: _sp_len, builtins.ord: _sp_ord, builtins.repr: _sp_repr, builtins.chr: _sp_chr, float: _sp_float,
    builtins.min: _sp_minmax, builtins.max: _sp_minmax, builtins.sum: _sp_sum,
    _json.loads: _sp_json_loads, _json.dumps: _sp_json_dumps,
}


def h_call(f, *a, **k):
    if CALL_HOOKS:
        for hook in CALL_HOOKS:
            done, r = hook(f, a, k)
            if done:
                return r
    tf = type(f)
    if tf is types.FunctionType or tf is types.MethodType:
        sp_ = SPECIAL.get(f) if tf is types.FunctionType else None
        if sp_ is not None:
            return sp_(f, a, k)
        return f(*a, **k)
    if tf is types.BuiltinFunctionType or tf is types.BuiltinMethodType:
        recv = getattr(f, '__self__', None)
        if isinstance(recv, (bytes, str)) and not isinstance(recv, SSeq):
            done, r = _seq_method(f, a, k)
            if done:
                return r
            return f(*a, **k)
        if type(recv) is dict and a and isinstance(a[0], (SSeq, SInt)) and f.__name__ in ('get', 'pop', '__contains__'):
            found, v = _plain_dict_find(recv, a[0])
            if f.__name__ == '__contains__':
                return found
            if found:
                if f.__name__ == 'pop':
                    raise Unmodelled('dict.pop with a symbolic key on a native dict')
                return v
            if len(a) > 1:
                return a[1]
            if f.__name__ == 'pop':
                raise KeyError(a[0])
            return None
        sp_ = SPECIAL.get(f)
        if sp_ is not None:
            return sp_(f, a, k)
        return f(*a, **k)
    if tf is type:
        sp_ = SPECIAL.get(f)
        if sp_ is not None:
            return sp_(f, a, k)
        return f(*a, **k)
    if tf is types.MethodDescriptorType or tf is types.WrapperDescriptorType:
        # e.g. str.join(sep, items)
        if a and isinstance(a[0], SSeq):
            return getattr(a[0], f.__name__)(*a[1:], **k)
        if a and isinstance(a[0], SInt) and f.__name__ in ('__repr__', '__str__'):
            return _fmt_int_text(a[0])
        return f(*a, **k)
    return f(*a, **k)


def _fmt_int_text(v):
    if _wide_range(v):
        raise Unmodelled('text of an unbounded symbolic integer')
    return str(v.concretize())


def _contains_sym(v):
    if is_sym(v):
        return True
    if isinstance(v, dict):
        return any(_contains_sym(x) or _contains_sym(y) for x, y in v.items())
    if isinstance(v, (list, tuple, set)):
        return any(_contains_sym(x) for x in v)
    return False


class OpaqueStr(str):
    """result of formatting a message with symbolic parts: formatting is not the
    subject; the text must never reach the output of the code under test"""

    def encode(self, *a, **k):
        raise Unmodelled('opaque formatted text was encoded')


OPAQUE_MSG = OpaqueStr('<sx:message with symbolic parts>')


def _wide_range(v):
    """does the symbolic int take values far apart? (then a str-format of it is
    treated as message text instead of being enumerated)"""
    ctx = Ctx.cur
    m = ctx.model()
    if m is None:
        return False
    v0 = m.eval(v.e, True).as_long()
    keep = ctx.model_cache
    r = ctx.check(z3.Or(v.e > v0 + 64, v.e < v0 - 64))
    ctx.model_cache = keep
    return r != z3.unsat

_FMT_RE = _re.compile(r'(%(?:\([^)]*\))?[-#0 +]*\d*(?:\.\d+)?[sdrai%])')


def h_mod(l, r):
    if isinstance(l, (bytes, str)) and not isinstance(l, SSeq):
        if isinstance(r, dict):
            if any(is_sym(x) for x in r.values()):
                return OPAQUE_MSG if isinstance(l, str) else _unm('bytes %% dict with symbolic values')
            return l % (dict(r.items()) if isinstance(r, SymDict) else r)
        args = r if isinstance(r, tuple) else (r,)
        if not any(is_sym(x) for x in args):
            return l % r
        kind = type(l)
        fmt = l.decode('latin-1') if kind is bytes else l
        parts = _FMT_RE.split(fmt)
        el = ()
        it = iter(args)
        for p in parts:
            if p == '%%':
                el += (37,)
            elif p in ('%s', '%d', '%i'):
                try:
                    v = next(it)
                except StopIteration:
                    raise TypeError('not enough arguments for format string')
                if isinstance(v, SSeq):
                    if p != '%s':
                        raise TypeError('%d format: a real number is required')
                    if v.kind is not kind:
                        if kind is bytes:
                            raise TypeError('%b requires a bytes-like object')
                        return OPAQUE_MSG        # '%s' % symbolic bytes: repr text
                    el += v.el
                elif isinstance(v, SInt):
                    if kind is bytes and p == '%s':
                        raise TypeError('%b requires a bytes-like object')
                    if kind is str and _wide_range(v):
                        Ctx.cur.flag('opaque-format')
                        return OPAQUE_MSG
                    txt = str(v.concretize())
                    el += tuple(map(ord, txt))
                elif isinstance(v, SBool):
                    return OPAQUE_MSG if kind is str else _unm('bytes % SBool')
                else:
                    if kind is bytes:
                        txt = (b'%s' % v) if p == '%s' else (b'%d' % v)
                        el += tuple(txt)
                    else:
                        txt = (p % v) if not isinstance(v, tuple) else (p % (v,))
                        el += tuple(map(ord, txt))
            elif p.startswith('%') and len(p) > 1:
                # %r and friends: formatting of symbolic values is not the subject
                if kind is str:
                    return OPAQUE_MSG
                raise Unmodelled('bytes formatting %s with symbolic argument' % p)
            elif p:
                el += tuple(map(ord, p))
        return mk_seq(el, kind)
    return l % r


def _fmt_piece(v, conv, spec):
    """one replacement field of an f-string / str.format with value v: returns a tuple of code points, or None
    when the text is not modelled (the whole result then becomes an opaque message)"""
    if not is_sym(v):
        if conv == 's':
            v = str(v)
        elif conv == 'r':
            v = repr(v)
        elif conv == 'a':
            v = ascii(v)
        return tuple(map(ord, format(v, spec)))
    if isinstance(v, SSeq) and v.kind is str and conv in (None, 's') and spec == '':
        return v.el
    if isinstance(v, SInt) and conv is None and _re.fullmatch(r'0?[1-8]?x', spec):
        # zero-padded lower-case hex of a non-negative int below 16**8: digits are nibbles of the value
        mm = _re.fullmatch(r'(0?)([1-8]?)x', spec)
        width = int(mm.group(2) or 1)
        if not mm.group(1) and width > 1:
            Ctx.cur.flag('opaque-format')
            return None
        bv = getattr(v, 'bv', None)
        if bv is not None and (bv.size() <= 32 or getattr(v, 'ub', 2 ** 64) < 2 ** 32):
            bv = bv if bv.size() == 32 else (z3.ZeroExt(32 - bv.size(), bv) if bv.size() < 32 else z3.Extract(31, 0, bv))
            n = width
            while n < 8 and not bool(mkb(z3.ULT(bv, 16 ** n))):
                n += 1
        else:
            if not bool(mkb(v.e >= 0)):
                Ctx.cur.flag('opaque-format')
                return None
            n = width
            while n <= 8 and not bool(mkb(v.e < 16 ** n)):
                n += 1
            if n > 8:
                Ctx.cur.flag('opaque-format')
                return None
            bv = z3.Int2BV(v.e, 32)
        out = []
        for i in range(n - 1, -1, -1):
            nib = z3.ZeroExt(28, z3.Extract(4 * i + 3, 4 * i, bv))
            out.append(z3.simplify(z3.If(z3.ULT(nib, 10), nib + 48, nib + 87)))
        return tuple(out)
    if isinstance(v, SInt) and conv in (None, 's') and spec in ('', 'd'):
        if _wide_range(v):
            Ctx.cur.flag('opaque-format')
            return None
        return tuple(map(ord, str(v.concretize())))
    Ctx.cur.flag('opaque-format')
    return None


def h_fstr(parts):
    """f-string: parts are str literals or (value, conversion, format_spec) triples"""
    if not any(type(p) is tuple and (is_sym(p[0]) or is_sym(p[2])) for p in parts):
        out = []
        for p in parts:
            if type(p) is tuple:
                v, conv, spec = p
                if conv == 's':
                    v = str(v)
                elif conv == 'r':
                    v = repr(v)
                elif conv == 'a':
                    v = ascii(v)
                out.append(format(v, spec))
            else:
                out.append(p)
        return ''.join(out)
    el = ()
    for p in parts:
        if type(p) is tuple:
            v, conv, spec = p
            if is_sym(spec):
                return OPAQUE_MSG
            piece = _fmt_piece(v, conv, spec)
            if piece is None:
                return OPAQUE_MSG
            el += tuple(piece)
        else:
            el += tuple(map(ord, p))
    return mk_seq(el, str)


def h_format(fmt, a, k):
    """str.format with symbolic arguments (concrete format string, simple fields)"""
    import string
    if isinstance(fmt, SSeq):
        if any(not isinstance(e, int) for e in fmt.el):
            raise Unmodelled('str.format on a symbolic format string')
        fmt = ''.join(map(chr, fmt.el))
    el = ()
    auto = 0
    for lit, field, spec, conv in string.Formatter().parse(fmt):
        el += tuple(map(ord, lit))
        if field is None:
            continue
        if field == '':
            field = str(auto)
            auto += 1
        if not _re.fullmatch(r'[A-Za-z_0-9]+', field) or '{' in (spec or ''):
            raise Unmodelled('str.format field %r with symbolic arguments' % field)
        v = a[int(field)] if field.isdigit() else k[field]
        piece = _fmt_piece(v, conv, spec or '')
        if piece is None:
            return OPAQUE_MSG
        el += tuple(piece)
    return mk_seq(el, str)


def _unm(msg):
    raise Unmodelled(msg)


def h_in(x, c, negate):
    if isinstance(c, SymDict):
        r = c.__contains__(x)
    elif is_sym(x) and isinstance(c, (set, frozenset, dict, list, tuple)):
        r = False
        for e in (sorted(c, key=repr) if isinstance(c, (set, frozenset, dict)) else c):
            eq = (x == e)
            if eq is False:
                continue
            if eq is True or bool(eq):
                r = True
                break
    elif isinstance(c, (bytes, str)) and not isinstance(c, SSeq) and isinstance(x, SSeq):
        r = lift(c).__contains__(x)
    else:
        r = x in c
    return (not r) if negate else r


def h_dict_pairs(pairs):
    d = SymDict()
    for k, v in pairs:
        d[k] = v
    return d


def _plain_dict_find(d, key):
    """solver-decided lookup of a symbolic key in a native dict (keys compared one by one)"""
    for k in list(d.keys()):
        eq = (key == k)
        if eq is False:
            continue
        if eq is True or bool(eq):
            return True, d[k]
    return False, None


def h_getitem(obj, key):
    try:
        return obj[key]
    except TypeError:
        if type(obj) is dict and isinstance(key, (SSeq, SInt)):
            found, v = _plain_dict_find(obj, key)
            if found:
                return v
            raise KeyError(key)
        raise


def h_enter(name):
    REACHED.add(name)


# ------------------------------------------------------------------ AST pass

class Instr(ast.NodeTransformer):
    def __init__(self, modname=''):
        self.modname = modname
        self.stack = []

    def visit_Dict(self, node):
        self.generic_visit(node)
        if any(k is None for k in node.keys):
            return node
        return ast.copy_location(ast.Call(
            func=ast.Name('_sx_dict_', ast.Load()),
            args=[ast.List(list(node.keys), ast.Load()), ast.List(list(node.values), ast.Load())],
            keywords=[]), node)

    def visit_DictComp(self, node):
        self.generic_visit(node)
        pairs = ast.ListComp(elt=ast.Tuple(elts=[node.key, node.value], ctx=ast.Load()), generators=node.generators)
        return ast.copy_location(ast.Call(func=ast.Name('_sx_dict_pairs_', ast.Load()), args=[pairs], keywords=[]), node)

    def visit_Subscript(self, node):
        self.generic_visit(node)
        if isinstance(node.ctx, ast.Load) and not isinstance(node.slice, ast.Slice):
            return ast.copy_location(ast.Call(func=ast.Name('_sx_getitem_', ast.Load()),
                                              args=[node.value, node.slice], keywords=[]), node)
        return node

    def visit_JoinedStr(self, node):
        self.generic_visit(node)
        parts = []
        for v in node.values:
            if isinstance(v, ast.Constant):
                parts.append(v)
            else:
                conv = {-1: None, 115: 's', 114: 'r', 97: 'a'}[v.conversion]
                spec = v.format_spec if v.format_spec is not None else ast.Constant('')
                parts.append(ast.Tuple(elts=[v.value, ast.Constant(conv), spec], ctx=ast.Load()))
        return ast.copy_location(ast.Call(func=ast.Name('_sx_fstr_', ast.Load()),
                                          args=[ast.List(parts, ast.Load())], keywords=[]), node)

    def visit_Call(self, node):
        self.generic_visit(node)
        if isinstance(node.func, ast.Name) and node.func.id in ('super', 'locals', 'globals', 'vars'):
            return node
        return ast.copy_location(ast.Call(
            func=ast.Name('_sx_call_', ast.Load()),
            args=[node.func] + node.args, keywords=node.keywords), node)

    def visit_BinOp(self, node):
        self.generic_visit(node)
        if isinstance(node.op, ast.Mod):
            return ast.copy_location(ast.Call(
                func=ast.Name('_sx_mod_', ast.Load()),
                args=[node.left, node.right], keywords=[]), node)
        return node

    def visit_Compare(self, node):
        self.generic_visit(node)
        if len(node.ops) == 1 and isinstance(node.ops[0], (ast.In, ast.NotIn)):
            return ast.copy_location(ast.Call(
                func=ast.Name('_sx_in_', ast.Load()),
                args=[node.left, node.comparators[0],
                      ast.Constant(isinstance(node.ops[0], ast.NotIn))],
                keywords=[]), node)
        return node

    def _func(self, node):
        self.stack.append(node.name)
        qual = '%s:%s' % (self.modname, '.'.join(self.stack))
        self.generic_visit(node)
        self.stack.pop()
        mark = ast.Expr(ast.Call(func=ast.Name('_sx_enter_', ast.Load()),
                                 args=[ast.Constant(qual)], keywords=[]))
        i = 0
        if (node.body and isinstance(node.body[0], ast.Expr)
                and isinstance(node.body[0].value, ast.Constant)
                and isinstance(node.body[0].value.value, str)):
            i = 1
        node.body.insert(i, ast.copy_location(mark, node.body[0]))
        return node

    visit_FunctionDef = _func
    visit_AsyncFunctionDef = _func

    def visit_ClassDef(self, node):
        self.stack.append(node.name)
        self.generic_visit(node)
        self.stack.pop()
        return node


HELPERS = {
    '_sx_call_': h_call, '_sx_mod_': h_mod, '_sx_in_': h_in, '_sx_dict_': h_dict,
    '_sx_enter_': h_enter, '_sx_dict_pairs_': h_dict_pairs, '_sx_getitem_': h_getitem, '_sx_fstr_': h_fstr,
}


def instrument_source(src, path, modname):
    tree = ast.parse(src, path)
    tree = Instr(modname).visit(tree)
    ast.fix_missing_locations(tree)
    return compile(tree, path, 'exec', dont_inherit=True)


class _Loader(importlib.machinery.SourceFileLoader):
    def source_to_code(self, data, path, *, _optimize=-1):
        return instrument_source(data, path, self.name)

    def exec_module(self, module):
        module.__dict__.update(HELPERS)
        super().exec_module(module)

    def get_code(self, fullname):
        # never use or write a .pyc: always rebuild from the current source
        path = self.get_filename(fullname)
        return self.source_to_code(self.get_data(path), path)


class _Finder(importlib.abc.MetaPathFinder):
    def __init__(self, prefix, exact):
        self.prefix = prefix
        self.exact = exact

    def find_spec(self, fullname, path, target=None):
        if self.exact:
            if fullname != self.prefix:
                return None
        elif fullname != self.prefix and not fullname.startswith(self.prefix + '.'):
            return None
        spec = importlib.machinery.PathFinder.find_spec(fullname, path)
        if spec is None or not isinstance(spec.loader, importlib.machinery.SourceFileLoader):
            return spec
        spec.loader = _Loader(spec.loader.name, spec.loader.path)
        return spec


_installed = set()


def install(prefix='pydiffx', exact=False):
    if (prefix, exact) in _installed:
        return
    _installed.add((prefix, exact))
    for m in list(sys.modules):
        if m == prefix or (not exact and m.startswith(prefix + '.')):
            raise RuntimeError('%s imported before instrumentation' % m)
    sys.meta_path.insert(0, _Finder(prefix, exact))


def instrument_function(func, extra_globals=None):
    """an instrumented private copy of a (platform) pure-Python function"""
    import inspect
    import textwrap
    src = textwrap.dedent(inspect.getsource(func))
    code = instrument_source(src, inspect.getsourcefile(func) or '<sx>', func.__module__)
    ns = dict(func.__globals__)
    ns.update(HELPERS)
    if extra_globals:
        ns.update(extra_globals)
    exec(code, ns)
    return ns[func.__name__]
