"""SX: length-concrete symbolic shadow execution of the real pydiffx source (see DESIGN.md)."""
