"""check driver: runs the obligations of one property, replays counterexamples
on the uninstrumented code, matches known findings, writes evidence."""
import argparse
import hashlib
import importlib
import json
import os
import subprocess
import sys
import time

VERIF = os.path.dirname(os.path.dirname(os.path.abspath(__file__)))
REPO = os.environ.get('SX_REPO', '/repo')
REPO_PY = os.path.join(REPO, 'python')
# scratch runs against a mutated copy (SX_REPO) keep their evidence/replays out of /verif
OUT = os.environ.get('SX_OUT', VERIF if REPO == '/repo' else os.path.join(REPO, 'sx-out'))

EXIT_OK, EXIT_VIOLATION, EXIT_INCONCLUSIVE = 0, 1, 2

_DEFINED = []


def defined_names():
    """qualified names ('pkg.mod:Class.func') of every function defined in the current source of the package"""
    if not _DEFINED:
        import ast
        names = set()
        root = os.path.join(REPO_PY, 'pydiffx')
        for d, _, fs in os.walk(root):
            for f in fs:
                if not f.endswith('.py') or os.sep + 'tests' in d:
                    continue
                path = os.path.join(d, f)
                mod = os.path.relpath(path, REPO_PY)[:-3].replace(os.sep, '.')
                try:
                    tree = ast.parse(open(path, encoding='utf-8').read())
                except SyntaxError:
                    continue

                def walk(node, stack):
                    for ch in ast.iter_child_nodes(node):
                        if isinstance(ch, (ast.FunctionDef, ast.AsyncFunctionDef, ast.ClassDef)):
                            if not isinstance(ch, ast.ClassDef):
                                names.add('%s:%s' % (mod, '.'.join(stack + [ch.name])))
                            walk(ch, stack + [ch.name])
                        else:
                            walk(ch, stack)
                walk(tree, [])
        _DEFINED.append(names)
    return _DEFINED[0]


def to_json(v):
    if isinstance(v, (bytes, bytearray)):
        return {'$b': bytes(v).hex()}
    if isinstance(v, dict):
        return {str(k): to_json(x) for k, x in v.items()}
    if isinstance(v, (list, tuple)):
        return [to_json(x) for x in v]
    if isinstance(v, (set, frozenset)):
        return sorted(to_json(x) for x in v)
    if isinstance(v, (str, int, float, bool)) or v is None:
        return v
    return repr(v)


def from_json(v):
    if isinstance(v, dict):
        if set(v) == {'$b'}:
            return bytes.fromhex(v['$b'])
        return {k: from_json(x) for k, x in v.items()}
    if isinstance(v, list):
        return [from_json(x) for x in v]
    return v


def log(msg):
    print(msg, flush=True)


def load_known():
    p = os.path.join(VERIF, 'known_findings.json')
    if not os.path.exists(p):
        return {'known': [], 'fixed': []}
    with open(p) as f:
        return json.load(f)


def repo_state():
    try:
        head = subprocess.run(['git', '-C', REPO, 'rev-parse', 'HEAD'], capture_output=True, text=True).stdout.strip()
        dirty = subprocess.run(['git', '-C', REPO, 'status', '--porcelain', '--', 'python'], capture_output=True,
                               text=True).stdout.strip()
        return head + ('+dirty' if dirty else '')
    except Exception:
        return 'unknown'


def replay_file(path):
    """run a replay file on the uninstrumented package in a fresh process"""
    env = dict(os.environ)
    env['PYTHONPATH'] = VERIF + os.pathsep + REPO_PY
    env['PYTHONDONTWRITEBYTECODE'] = '1'
    env.pop('SX_INSTRUMENT', None)
    try:
        p = subprocess.run([sys.executable, '-m', 'sx.replay_main', path], capture_output=True, text=True,
                           env=env, timeout=300, cwd=VERIF)
    except subprocess.TimeoutExpired:
        return {'violated': False, 'error': 'replay timeout'}
    for line in reversed(p.stdout.strip().splitlines()):
        if line.startswith('{'):
            try:
                return json.loads(line)
            except ValueError:
                pass
    return {'violated': False, 'error': 'replay produced no result: %s %s' % (p.stdout[-300:], p.stderr[-600:])}


def replay_files(paths):
    """replay many files in one fresh uninstrumented process; returns one result per file"""
    env = dict(os.environ)
    env['PYTHONPATH'] = VERIF + os.pathsep + REPO_PY
    env['PYTHONDONTWRITEBYTECODE'] = '1'
    out = []
    for i in range(0, len(paths), 40):
        chunk = paths[i:i + 40]
        try:
            p = subprocess.run([sys.executable, '-m', 'sx.replay_main'] + chunk, capture_output=True, text=True,
                               env=env, timeout=60 + 25 * len(chunk), cwd=VERIF)
            lines = [l for l in p.stdout.splitlines() if l.startswith('{')]
        except subprocess.TimeoutExpired:
            lines = []
        res = []
        for l in lines:
            try:
                res.append(json.loads(l))
            except ValueError:
                pass
        while len(res) < len(chunk):
            res.append({'violated': False, 'error': 'replay produced no result'})
        out.extend(res[:len(chunk)])
    return out


def cross_check(dump_dir, limit):
    """re-decide sampled end-of-path queries with /usr/bin/z3 (4.8.12) and the cvc5 binary; any `(error` line or
    time-out counts as undecided, a different sat/unsat answer as a disagreement"""
    import glob
    import random
    files = sorted(glob.glob(os.path.join(dump_dir, '*.smt2')))
    random.Random(0).shuffle(files)
    files = files[:limit]
    out = {'sampled': len(files), 'z3old_agree': 0, 'z3old_undecided': 0, 'cvc5_agree': 0, 'cvc5_undecided': 0,
           'disagree': 0, 'disagreements': []}

    def run(cmd):
        try:
            p = subprocess.run(cmd, capture_output=True, text=True, timeout=40)
        except (subprocess.TimeoutExpired, OSError):
            return None
        txt = p.stdout + p.stderr
        if '(error' in txt:
            return None
        for line in p.stdout.split():
            if line in ('sat', 'unsat'):
                return line
        return None
    procs = []
    for f in files:
        want = f.rsplit('-', 1)[1][:-5]
        if want not in ('sat', 'unsat'):
            continue
        for key, cmd in (('z3old', ['/usr/bin/z3', '-T:30', f]), ('cvc5', ['cvc5', '--tlimit=30000', f])):
            got = run(cmd)
            if got is None:
                out[key + '_undecided'] += 1
            elif got == want:
                out[key + '_agree'] += 1
            else:
                out['disagree'] += 1
                out['disagreements'].append({'solver': key, 'file': os.path.basename(f), 'z3_5': want, 'other': got})
                try:
                    import shutil
                    keep = os.path.join(OUT, 'smt-disagreements')
                    os.makedirs(keep, exist_ok=True)
                    shutil.copy(f, keep)
                except Exception:
                    pass
    return out


def run_check(pid, tier, seed):
    t_start = time.time()
    sys.path.insert(0, VERIF)
    sys.path.insert(0, REPO_PY)
    sys.dont_write_bytecode = True
    sys.setrecursionlimit(400000)
    from sx import core, instrument, run as sxrun
    core.Ctx.seed = seed
    instrument.install('pydiffx')
    hm = importlib.import_module('harness.%s' % pid)
    if hasattr(hm, 'setup'):
        hm.setup()
    log('== %s tier=%s seed=%d repo=%s' % (pid, tier, seed, repo_state()))

    evidence = {
        'property_id': pid, 'tier': tier, 'seed': seed, 'level': 'model_checking',
        'coverage': {}, 'assumptions': list(getattr(hm, 'ASSUMPTIONS', [])), 'wall_s': 0.0, 'violations': 0,
    }
    cov = evidence['coverage']
    inconclusive = []
    skipped = []

    # 1. translator / model validation on concrete runs (Serval-style)
    validated = 0
    if hasattr(hm, 'validate'):
        import signal

        class _ValidationTimeout(BaseException):
            pass

        def _alarm(signum, frame):
            raise _ValidationTimeout()
        signal.signal(signal.SIGPROF, _alarm)
        signal.setitimer(signal.ITIMER_PROF, 600)        # CPU time of this process
        try:
            validated = int(hm.validate(tier))
            # every regex the package currently holds (found by reflection) against the native engine
            from . import selftest as _st
            validated += _st.validate_loaded_patterns()
            signal.setitimer(signal.ITIMER_PROF, 0)
            log('  validation of models/translation against the real code: %d concrete runs agree' % validated)
        except _ValidationTimeout:
            inconclusive.append('model validation did not finish within 600 s of CPU time (non-terminating code under test?)')
            log('  MODEL VALIDATION TIMEOUT')
        except AssertionError as e:
            inconclusive.append('model validation failed: %s' % (str(e)[:500],))
            log('  MODEL VALIDATION FAILED: %s' % (str(e)[:800],))
        except Exception as e:
            import traceback
            inconclusive.append('model validation error: %s' % traceback.format_exc()[-800:])
            log('  MODEL VALIDATION ERROR: %s' % traceback.format_exc()[-1500:])
        finally:
            signal.setitimer(signal.ITIMER_PROF, 0)

    # 2. obligations
    obs = []
    try:
        obs = hm.obligations(tier)
    except Exception:
        import traceback
        inconclusive.append('building obligations failed: %s' % traceback.format_exc()[-800:])
        log(traceback.format_exc())
    obs2 = []
    for ob in obs:
        if isinstance(ob, tuple) and ob[0] == 'skipped':
            skipped.append({'obligation': ob[1], 'reason': ob[2]})
            log('  SKIPPED %s: %s' % (ob[1], ob[2]))
        else:
            obs2.append(ob)
    obs = obs2
    only = os.environ.get('SX_ONLY')          # development aid: run a subset of the obligations (never in MANIFEST commands)
    if only:
        for ob in obs:
            if only not in ob.name:
                skipped.append({'obligation': ob.name, 'reason': 'SX_ONLY=%s set for this run' % only})
        obs = [ob for ob in obs if only in ob.name]
    dump_dir = os.path.join(OUT, 'smt-dump', pid)
    import shutil as _sh
    _sh.rmtree(dump_dir, ignore_errors=True)
    os.makedirs(dump_dir, exist_ok=True)
    sxrun.DUMP_DIR = dump_dir
    sxrun.DUMP_EVERY = 199 if tier == 'quick' else 97
    results = sxrun.explore_all(obs, log=log) if obs else {}
    xcheck = cross_check(dump_dir, 12 if tier == 'quick' else 60)
    log('  second solvers on %d sampled end-of-path queries: z3-4.8.12 agree=%d undecided=%d, cvc5 agree=%d undecided=%d, '
        'DISAGREE=%d' % (xcheck['sampled'], xcheck['z3old_agree'], xcheck['z3old_undecided'], xcheck['cvc5_agree'],
                         xcheck['cvc5_undecided'], xcheck['disagree']))
    _sh.rmtree(dump_dir, ignore_errors=True)

    # 3. aggregate, replay violations
    import shutil
    shutil.rmtree(os.path.join(OUT, 'replays', pid), ignore_errors=True)
    known = load_known()
    known_for = [k for k in known.get('known', []) if k.get('property') == pid]
    total_paths = total_dec = total_q = 0
    solver_s = 0.0
    reached = set()
    violations = []      # confirmed, unknown signature
    known_hits = {}
    nonrepro = []
    replays_run = 0
    extra_confirmed = [0]
    replay_selftest_errors = []
    ob_reports = []
    for ob in obs:
        agg = results[ob.name]
        total_paths += agg.paths
        total_dec += agg.decisions
        total_q += agg.queries
        solver_s += agg.solver_s
        reached |= agg.reached
        rep = {'obligation': ob.name, 'desc': ob.desc, 'bounds': ob.bounds, 'paths': agg.paths,
               'outcomes': agg.counts, 'decisions': agg.decisions, 'queries': agg.queries,
               'solver_s': round(agg.solver_s, 2), 'wall_s': round(agg.wall, 2), 'skips': agg.skips,
               'flags': agg.flags, 'stubs': ob.stubs}
        ob_reports.append(rep)
        if agg.errors:
            inconclusive.append('%s: harness error: %s' % (ob.name, agg.errors[0]))
        declined = ob.may_decline and agg.unmodelled and not agg.viols and not agg.errors
        if declined:
            why = '; '.join('%s (%d paths)' % (w, n) for w, n in list(agg.unmodelled.items())[:3])
            rep['declined'] = why
            skipped.append({'obligation': ob.name, 'reason': 'declined: the current source uses operations the '
                            'abstraction of this obligation does not model: ' + why})
            log('  DECLINED %s: %s' % (ob.name, why))
            continue
        for w, n in agg.unmodelled.items():
            inconclusive.append('%s: %s (%d paths)' % (ob.name, w, n))
        if not ob.allow_cut:
            for w, n in agg.cuts.items():
                inconclusive.append('%s: cut: %s (%d paths)' % (ob.name, w, n))
        rep['paths_cut_by_bound'] = dict(agg.cuts)
        if agg.stopped_early:
            rep['stopped_early_with_pending_prefixes'] = agg.stopped_early
            if not agg.viols:
                inconclusive.append('%s: exploration stopped early' % ob.name)
        if agg.cut:
            inconclusive.append('%s: exploration cut by limit' % ob.name)
        concl = agg.counts.get('ok', 0) + agg.counts.get('viol', 0)
        if concl == 0 and not agg.errors:
            inconclusive.append('%s: vacuous (no path reached a verdict)' % ob.name)
        for need in ob.must_reach:
            if not any(r.endswith(need) or need in r for r in agg.reached):
                if need.split('.')[-1].split(':')[-1].startswith('_') and not any(need in d for d in defined_names()):
                    # a private helper that the current source no longer has (renamed / merged by a refactoring):
                    # the vacuity guard falls back to "some path reached a verdict" (checked above)
                    rep.setdefault('must_reach_dropped', []).append(need)
                    continue
                inconclusive.append('%s: never reached %s under instrumentation' % (ob.name, need))
        # replay every distinct counterexample (up to a cap) on the uninstrumented code, one
        # fresh process per obligation
        seen = set()
        files = []
        per_label = {}
        for v in sorted(agg.viols, key=lambda v: -v.get('prio', 0)):
            wj = json.dumps(to_json(v['w']), sort_keys=True)
            key = (v['label'], wj)
            if key in seen:
                continue
            seen.add(key)
            if per_label.get(v['label'], 0) >= (3 if v['label'] == 'nontermination' else 40) or len(files) >= 160:
                continue
            per_label[v['label']] = per_label.get(v['label'], 0) + 1
            h = hashlib.sha1((ob.name + wj).encode()).hexdigest()[:12]
            d = os.path.join(OUT, 'replays', pid)
            os.makedirs(d, exist_ok=True)
            path = os.path.join(d, '%s-%s.json' % (ob.name, h))
            with open(path, 'w') as f:
                json.dump({'property': pid, 'obligation': ob.name, 'label': v['label'],
                           'witness': to_json(v['w']), 'choices': to_json(v.get('choices'))}, f, indent=1)
                # (no sort_keys: the insertion order of dicts inside a witness can be what matters)
            files.append((v, path))
        results_r = replay_files([p for _, p in files]) if files else []
        shown = {}
        for (v, path), r in zip(files, results_r):
            replays_run += 1
            if r.get('violated'):
                sig = r.get('signature', '')
                hit = None
                for kf in known_for:
                    if kf.get('signature') == sig:
                        hit = kf
                        break
                if hit is not None:
                    if sig in known_hits:
                        os.remove(path)
                    else:
                        known_hits[sig] = (hit, path, r)
                else:
                    k2 = (v['label'], sig)
                    shown[k2] = shown.get(k2, 0) + 1
                    if shown[k2] <= 3:
                        violations.append((ob.name, v['label'], path, r))
                    else:
                        os.remove(path)
                        extra_confirmed[0] += 1
            else:
                nonrepro.append((ob.name, v['label'], path, r))
        # replay self-test: witnesses of *passing* paths go through the same replay code on the real package and
        # must come back "not violated" without an error -- so that the replay path is exercised on every run,
        # not only when something is wrong
        if agg.wsamples and not agg.viols:
            d = os.path.join(OUT, 'replays', pid)
            os.makedirs(d, exist_ok=True)
            paths = []
            for i, ws in enumerate(agg.wsamples[:max(2, sxrun.WSAMPLES - 1)]):
                path = os.path.join(d, '%s-selftest%d.json' % (ob.name, i))
                with open(path, 'w') as f:
                    json.dump({'property': pid, 'obligation': ob.name, 'label': 'selftest', 'witness': to_json(ws)}, f)
                paths.append(path)
            for path, r in zip(paths, replay_files(paths)):
                replays_run += 1
                if r.get('violated'):
                    # the replay (concrete oracle on the real code) contradicts the symbolic verdict
                    inconclusive.append('%s: replay self-test: a passing path is reported as violated by the replay: %s' % (
                        ob.name, str(r)[:400]))
                elif r.get('error') and 'Traceback' in str(r.get('error')):
                    # a defect of the replay code itself: does not touch the verdict of this run; reported
                    replay_selftest_errors.append('%s: %s' % (ob.name, str(r.get('error'))[-400:]))
                    log('  WARNING: replay self-test crashed on a passing path of %s (harness defect, verdict unaffected)' % ob.name)
                else:
                    os.remove(path)
        rep['violations_found'] = len(agg.viols)
        rep['samples'] = agg.samples[:3]

    for sig, (kf, path, r) in sorted(known_hits.items()):
        log('KNOWN-FINDING: property=%s %s [%s] e.g. replay=%s' % (pid, kf.get('where', ''), sig, path))
    for i, (obn, label, path, r) in enumerate(violations):
        if i >= 12:
            log('  ... and %d more replay-confirmed counterexamples under %s' % (
                len(violations) - 12, os.path.join(OUT, 'replays', pid)))
            break
        log('VIOLATION property=%s replay=%s' % (pid, path))
        log('    obligation=%s label=%s signature=%s detail=%s' % (obn, label, r.get('signature'),
                                                                 str(r.get('detail'))[:400]))
    for obn, label, path, r in nonrepro[:10]:
        log('  NOT-REPRODUCED (engine/model mismatch, inconclusive) obligation=%s label=%s file=%s %s' % (
            obn, label, path, str(r)[:300]))
    if extra_confirmed[0]:
        log('  (%d further replay-confirmed counterexamples with the same label/signature not listed)' % extra_confirmed[0])
    if xcheck['disagree']:
        inconclusive.append('second solver disagrees with z3 on %d sampled queries: %s' % (xcheck['disagree'], xcheck['disagreements'][:3]))
    if nonrepro:
        inconclusive.append('%d counterexample(s) did not reproduce on the uninstrumented code' % len(nonrepro))

    samples = []
    for rep in ob_reports:
        for s in rep.pop('samples', []):
            samples.append({'obligation': rep['obligation'], 'path': s})
    if not samples:
        samples = [{'obligation': r['obligation'], 'outcomes': r['outcomes']} for r in ob_reports[:3]] or ['none']
    cov.update({
        'states': max(total_paths, 0), 'transitions': max(total_dec, 0),
        'traces_validated_against_impl': validated + replays_run,
        'samples': to_json(samples[:8]),
        'obligations': len(obs), 'discharged': sum(1 for ob in obs if not results[ob.name].viols
                                                   and not results[ob.name].unmodelled
                                                   and not results[ob.name].errors and not results[ob.name].cut),
        'queries': total_q, 'solver_s': round(solver_s, 2),
        'functions_encoded': sorted(reached),
        'per_obligation': to_json(ob_reports),
        'second_solver_cross_check': xcheck,
        'replay_selftest_errors': replay_selftest_errors[:5],
        'skipped_obligations': skipped,
        'inconclusive': inconclusive[:40],
        'known_findings_hit': sorted(known_hits),
        'not_reproduced': len(nonrepro),
        'exhaustive': False,
        'explanation': 'bounded symbolic execution of the real source (regenerated from %s); every feasible '
                       'path inside the stated bounds explored, end-of-path queries decided by z3 %s; '
                       'inputs outside the bounds are outside the claim' % (REPO_PY, _z3v()),
        'engine_python': sys.version.split()[0],
        'repo_state': repo_state(),
    })
    evidence['violations'] = len(violations)
    evidence['wall_s'] = round(time.time() - t_start, 2)
    os.makedirs(os.path.join(OUT, 'evidence'), exist_ok=True)
    with open(os.path.join(OUT, 'evidence', '%s.json' % pid), 'w') as f:
        json.dump(evidence, f, indent=1, sort_keys=True)
    log('== %s: paths=%d decisions=%d queries=%d solver=%.1fs wall=%.1fs violations=%d known=%d inconclusive=%d' % (
        pid, total_paths, total_dec, total_q, solver_s, evidence['wall_s'], len(violations), len(known_hits),
        len(inconclusive)))
    if violations:
        return EXIT_VIOLATION
    if inconclusive:
        for i in inconclusive[:12]:
            log('  INCONCLUSIVE: %s' % (i if len(i) <= 900 else i[:200] + ' ... ' + i[-700:]))
        return EXIT_INCONCLUSIVE
    return EXIT_OK


def _z3v():
    try:
        import z3
        return z3.get_version_string()
    except Exception:
        return '?'


def main(argv=None):
    ap = argparse.ArgumentParser(prog='check')
    ap.add_argument('what', help='property id (C01..C20), "replay", or "selftest"')
    ap.add_argument('arg', nargs='?')
    ap.add_argument('--tier', default=os.environ.get('VERIF_TIER', 'quick'), choices=['quick', 'thorough'])
    a = ap.parse_args(argv)
    seed = int(os.environ.get('VERIF_SEED', '0') or 0)
    if a.what == 'replay':
        r = replay_file(a.arg)
        print(json.dumps(r, indent=1))
        return EXIT_VIOLATION if r.get('violated') else EXIT_OK
    if a.what == 'selftest':
        sys.path.insert(0, VERIF)
        from sx import selftest
        return selftest.main()
    return run_check(a.what, a.tier, seed)


if __name__ == '__main__':
    sys.exit(main())
