"""Pure-Python stream models over shadow bytes (replace io.BytesIO and the
stream handed to reader/writer).  Every operation is logged so that
"append-only", "closed" and "no byte written" are observable."""
import os
import sys

import z3

from .core import Ctx, SInt, SSeq, OutOfBound, Unmodelled, lift, mk_seq


def _int_arg(n, avail):
    """resolve a (possibly symbolic) read size against `avail` bytes: returns
    the concrete number of bytes taken (forks on a symbolic size)"""
    if isinstance(n, SInt):
        ctx = Ctx.cur
        if ctx.branch(z3.Or(n.e > sys.maxsize, n.e < -sys.maxsize - 1)):
            raise OverflowError('Python int too large to convert to C ssize_t')
        if ctx.branch(n.e < 0):
            return avail
        if ctx.branch(n.e >= avail):
            return avail
        return n.concretize()
    if n is None:
        return avail
    if not isinstance(n, int):
        raise TypeError("argument should be integer or None, not '%s'" % type(n).__name__)
    if n > sys.maxsize or n < -sys.maxsize - 1:
        raise OverflowError('Python int too large to convert to C ssize_t')
    return avail if (n < 0 or n > avail) else n


class SymStream:
    """a readable (and writable) binary stream over shadow bytes"""

    def __init__(self, data=b'', max_reads=None):
        self.el = tuple(lift(data).el) if len(data) else ()
        self.pos = 0
        self.closed = False
        self.log = []
        self.nreads = 0
        self.max_reads = max_reads
        self.short_reads = []      # (requested, got) when a read hit EOF with a positive request

    # -- reading
    def read(self, n=-1):
        self._chk()
        self.nreads += 1
        if self.max_reads is not None and self.nreads > self.max_reads:
            raise OutOfBound('more than %d reads' % self.max_reads)
        avail = max(0, len(self.el) - self.pos)
        take = _int_arg(n, avail)
        out = mk_seq(self.el[self.pos:self.pos + take], bytes)
        self.pos += take
        self.log.append(('read', take))
        if isinstance(n, int) and not isinstance(n, SInt) and n > take:
            self.short_reads.append((n, take))
        return out

    def readline(self, size=-1):
        """up to and including the next LF (solver-decided position), like io.BytesIO.readline"""
        self._chk()
        self.nreads += 1
        if self.max_reads is not None and self.nreads > self.max_reads:
            raise OutOfBound('more than %d reads' % self.max_reads)
        rest = lift(mk_seq(self.el[self.pos:], bytes)) if self.pos < len(self.el) else None
        if rest is None:
            self.log.append(('read', 0))
            return b''
        limit = len(rest.el) if size is None or int(size) < 0 else min(int(size), len(rest.el))
        i = rest.find(b'\n', 0, limit)
        take = limit if i < 0 else i + 1
        out = mk_seq(rest.el[:take], bytes)
        self.pos += take
        self.log.append(('read', take))
        return out

    def readlines(self, hint=-1):
        out = []
        while True:
            ln = self.readline()
            if not len(ln):
                return out
            out.append(ln)

    def __iter__(self):
        return self

    def __next__(self):
        ln = self.readline()
        if not len(ln):
            raise StopIteration
        return ln

    def read1(self, n=-1):
        return self.read(n)

    def writelines(self, lines):
        for ln in lines:
            self.write(ln)

    def seek(self, off, whence=0):
        self._chk()
        off = int(off)
        if whence == os.SEEK_SET:
            if off < 0:
                raise ValueError('negative seek value %d' % off)
            self.pos = off
        elif whence == os.SEEK_CUR:
            self.pos = max(0, self.pos + off)
        elif whence == os.SEEK_END:
            self.pos = max(0, len(self.el) + off)
        else:
            raise ValueError('invalid whence')
        self.log.append(('seek', off, whence))
        return self.pos

    def tell(self):
        self._chk()
        return self.pos

    # -- writing
    def write(self, b):
        self._chk()
        if not isinstance(b, (bytes, bytearray, SSeq)) or (isinstance(b, SSeq) and b.kind is not bytes):
            raise TypeError("a bytes-like object is required, not '%s'" % (
                'str' if isinstance(b, (str, SSeq)) else type(b).__name__))
        bel = lift(b).el if len(b) else ()
        if self.pos > len(self.el):
            self.el += (0,) * (self.pos - len(self.el))
        self.log.append(('write', self.pos, len(bel), self.pos == len(self.el)))
        self.el = self.el[:self.pos] + bel + self.el[self.pos + len(bel):]
        self.pos += len(bel)
        return len(bel)

    def truncate(self, size=None):
        self._chk()
        size = self.pos if size is None else size
        self.el = self.el[:size]
        self.log.append(('truncate', size))
        return size

    def getvalue(self):
        self._chk()
        return mk_seq(self.el, bytes)

    def value(self):
        return mk_seq(self.el, bytes)

    def flush(self):
        pass

    def readable(self):
        return True

    def writable(self):
        return True

    def seekable(self):
        return True

    def close(self):
        self.closed = True

    def _chk(self):
        if self.closed:
            raise ValueError('I/O operation on closed file.')

    def __enter__(self):
        self._chk()
        return self

    def __exit__(self, *a):
        self.close()

    def append_only(self):
        """True iff every logged operation so far is an appending write"""
        return all(op[0] == 'write' and op[3] for op in self.log)
