"""REF_HUNK: reference unified-diff hunk parser written from the property
statement (C14) as an explicit state machine.  Plain Python over bytes-like
values; it runs natively in replays and under the SX engine in checks (the
module is loaded through the same instrumenting import hook)."""
import re

# a header line may carry its line ending (and whatever follows it): the
# grammar applies to the text before the first LF
HEADER = re.compile(rb'@@ -([0-9]+)(?:,([0-9]+))? \+([0-9]+)(?:,([0-9]+))? @@(?: ([^\n]*))?(?:\n.*)?', re.S)
MARKER = b'\\ No newline at end of file'


class Malformed(Exception):
    def __init__(self, line, line_num, premature=False):
        Exception.__init__(self, 'malformed hunk')
        self.line = line
        self.line_num = line_num
        self.premature = premature


class Unspecified(Exception):
    """the input is outside what the property pins down: a side of a hunk
    received more lines than its header announces and the hunk sequence was
    nevertheless *accepted* (which geometry such a hunk has is not stated).
    What stays pinned after an overrun: a hunk one of whose sides is still
    short when another header or the end of the input arrives "ends early" and
    must be reported at that line."""


class Side(object):
    def __init__(self, start, num):
        self.start = start          # 0-based first line shown
        self.num = num              # lines announced by the header
        self.i = 0                  # lines of this side consumed so far
        self.changed = 0
        self.first = None           # index (within the side) of the first changed line
        self.last = None

    def change(self):
        if self.first is None:
            self.first = self.i
        self.last = self.i
        self.changed += 1
        self.i += 1

    def summary(self):
        return {
            'first_changed_line': None if self.first is None else self.start + self.first,
            'last_changed_line': None if self.last is None else self.start + self.last,
            'num_lines': self.num,
            'num_lines_changed': self.changed,
            'start_line': self.start,
        }


class State(object):
    def __init__(self, ignore_garbage=False):
        self.ignore_garbage = ignore_garbage
        self.hunks = []
        self.overrun = False
        self.inserts = 0
        self.deletes = 0
        self.orig = None
        self.mod = None
        self.context = None
        self.processed = 0
        self.stopped = False

    def in_hunk(self):
        return self.orig is not None


def step(st, line, line_num, strict=True):
    """consume one line; returns False when parsing stops before this line
    (strict: an overrun raises Unspecified at once -- the single-step view; otherwise it is remembered in st.overrun
    and the caller decides at the end)"""
    m = HEADER.fullmatch(line) if line.startswith(b'@@') else None
    if st.in_hunk():
        if m is not None:
            raise Malformed(line, line_num)          # interrupted by another header
        if line.startswith(b'@@'):
            raise Malformed(line, line_num)          # not context/insert/delete/marker
        if line.startswith(b'-'):
            st.orig.change()
            st.deletes += 1
        elif line.startswith(b'+'):
            st.mod.change()
            st.inserts += 1
        elif line.startswith(b' '):
            st.orig.i += 1
            st.mod.i += 1
        elif line.strip() == MARKER:
            pass                                     # never counts
        else:
            raise Malformed(line, line_num)
        if st.orig.i > st.orig.num or st.mod.i > st.mod.num:
            if strict:
                raise Unspecified()
            st.overrun = True
    else:
        if m is None:
            if st.ignore_garbage:
                st.processed = line_num
                return True
            st.stopped = True
            return False
        st.orig = Side(int(m.group(1)) - 1, int(m.group(2)) if m.group(2) is not None else 1)
        st.mod = Side(int(m.group(3)) - 1, int(m.group(4)) if m.group(4) is not None else 1)
        st.context = m.group(5)
    st.processed = line_num
    if st.orig.i >= st.orig.num and st.mod.i >= st.mod.num:
        pre = [s.first for s in (st.orig, st.mod) if s.first is not None]
        post = [s.num - (s.last + 1) for s in (st.orig, st.mod) if s.last is not None]
        st.hunks.append({
            'context': st.context,
            'orig': st.orig.summary(),
            'modified': st.mod.summary(),
            'lines_of_context_pre': min(pre) if pre else 0,
            'lines_of_context_post': min(post) if post else 0,
        })
        st.orig = None
        st.mod = None
        st.context = None
    return True


def finish(st, lines):
    if st.in_hunk():
        raise Malformed(lines[-1], len(lines), premature=True)
    if st.overrun:
        raise Unspecified()
    return {
        'hunks': st.hunks,
        'num_processed_lines': st.processed,
        'total_deletes': st.deletes,
        'total_inserts': st.inserts,
    }


def hunks(lines, ignore_garbage=False):
    st = State(ignore_garbage)
    for n, line in enumerate(lines, 1):
        if not step(st, line, n, strict=False):
            break
    return finish(st, lines)
