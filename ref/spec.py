"""Reference facts written from the DiffX 1.0 specification text (docs/spec),
independent of pydiffx/sections.py.

REF_HIER: the "may follow" relation from the state tree in
docs/spec/section-format.rst ("DiffX parsers can use the following state
tree"), with its two errata repaired from docs/spec/sections.rst and the
specification's own examples: "..change" under "..meta" is a typo for
".change", and "..preamble -> ..meta" is missing although preamble and
metadata are both optional subsections of a change.
"""

IDS = ['diffx', '.preamble', '.meta', '.change', '..preamble', '..meta', '..file', '...meta', '...diff']
NAMES = ['diffx', 'preamble', 'meta', 'change', 'file', 'diff']

REF_HIER = {
    'diffx': ['.preamble', '.meta', '.change'],
    '.preamble': ['.meta', '.change'],
    '.meta': ['.change'],
    '.change': ['..preamble', '..meta', '..file'],
    '..preamble': ['..meta', '..file'],
    '..meta': ['.change', '..file'],
    '..file': ['...meta'],
    '...meta': ['...diff', '..file', '.change'],
    '...diff': ['..file', '.change'],
}

CONTAINERS = ['diffx', '.change', '..file']
CONTENT = ['.preamble', '.meta', '..preamble', '..meta', '...meta', '...diff']

# container nesting level of the container a section belongs to
CONTAINER_LEVEL = {'diffx': 0, '.preamble': 0, '.meta': 0, '.change': 1, '..preamble': 1, '..meta': 1,
                   '..file': 2, '...meta': 2, '...diff': 2}


def may_follow(prev, nxt):
    if prev is None:
        return nxt == 'diffx'
    return nxt in REF_HIER.get(prev, ())


def all_ids_24():
    return ['.' * lvl + n for lvl in range(4) for n in NAMES]


def effective_encoding(chain, own, sid):
    """C04: own option if present, else nearest declaring ancestor; diff never
    inherits.  chain = declared encodings (or None) of main[, change[, file]]."""
    if own is not None:
        return own
    if sid == '...diff':
        return None
    for e in reversed(chain):
        if e is not None:
            return e
    return None


# ---------------------------------------------------------------- REF_WRITE / REF_READ
# Independent serializer / section reader written from docs/spec (sections.rst,
# section-format.rst, encodings.rst).  Works on native values and, under the
# SX engine, on shadow values (only + / find / startswith / endswith / slicing
# / encode / decode are used).

NEWLINES = {'unix': '\n', 'dos': '\r\n'}
_BOMS = {
    'utf-8-sig': [b'\xef\xbb\xbf'],
    'utf-16': [b'\xff\xfe', b'\xfe\xff'],
    'utf-32': [b'\xff\xfe\x00\x00', b'\x00\x00\xfe\xff'],
}


def newline_bytes(kind, encoding):
    """BOM-free encoding of LF / CRLF in a codec (None: ASCII)"""
    import codecs
    enc = encoding or 'ascii'
    raw = NEWLINES[kind].encode(enc)
    for bom in _BOMS.get(codecs.lookup(enc).name, []):
        if raw.startswith(bom):
            return raw[len(bom):]
    return raw


def scan_lines(data, nl):
    """left-to-right split after every occurrence of nl (line ends kept)"""
    out = []
    p = 0
    n = len(data)
    while p < n:
        i = data.find(nl, p)
        if i < 0:
            out.append(data[p:])
            break
        out.append(data[p:i + len(nl)])
        p = i + len(nl)
    return out


def detect_kind(data, unix_nl, dos_nl):
    """first-line detection: dos iff the first LF ends a CRLF"""
    i = data.find(unix_nl)
    if i < 0:
        return 'unix'
    j = i + len(unix_nl) - len(dos_nl)
    if j >= 0 and data[j:i + len(unix_nl)] == dos_nl:
        return 'dos'
    return 'unix'


def header_bytes(sid, options):
    items = sorted((k, v) for k, v in options.items() if v is not None)
    s = '#%s:' % sid
    if items:
        s += ' ' + ', '.join('%s=%s' % (k, v) for k, v in items)
    return s.encode('ascii') + b'\n'


def write_text_content(text, encoding, line_endings, indent):
    """content bytes of a text section and the recorded line_endings"""
    kind = line_endings or detect_kind(text, '\n', '\r\n')
    data = text.encode(encoding)
    nl = newline_bytes(kind, encoding)
    if not data.endswith(nl):
        data = data + nl
    if indent:
        pad = b' ' * indent
        out = b''
        for line in scan_lines(data, nl):
            out = out + pad + line
        data = out
    return data, kind


def write_bytes_content(data, encoding, line_endings):
    kind = line_endings or detect_kind(data, newline_bytes('unix', encoding), newline_bytes('dos', encoding))
    nl = newline_bytes(kind, encoding)
    if not data.endswith(nl):
        data = data + nl
    return data, kind


class Malformed(Exception):
    pass


def read_content(raw, encoding, indent, line_endings, keep_bytes):
    """specification reading of the exact content bytes of one section.
    Returns (content, number of lines)."""
    if line_endings is not None and line_endings not in NEWLINES:
        raise Malformed('unknown line_endings')
    kind = line_endings or detect_kind(raw, newline_bytes('unix', encoding), newline_bytes('dos', encoding))
    nl = newline_bytes(kind, encoding)
    lines = scan_lines(raw, nl)
    if indent:
        stripped = []
        for line in lines:
            k = 0
            while k < indent and k < len(line) and line[k:k + 1] == b' ':
                k += 1
            stripped.append(line[k:])
        data = b''
        for line in stripped:
            data = data + line
    else:
        data = raw
    if encoding and not keep_bytes:
        try:
            text = data.decode(encoding)
        except UnicodeDecodeError:
            raise Malformed('undecodable')
        if not text.endswith(NEWLINES[kind]):
            raise Malformed('no trailing newline')
        return text, len(lines)
    if not data.endswith(nl):
        raise Malformed('no trailing newline')
    return data, len(lines)
