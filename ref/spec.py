"""Reference facts written from the DiffX 1.0 specification text (docs/spec),
independent of pydiffx/sections.py.

REF_HIER: the "may follow" relation from the state tree in
docs/spec/section-format.rst ("DiffX parsers can use the following state
tree"), with its two errata repaired from docs/spec/sections.rst and the
specification's own examples: "..change" under "..meta" is a typo for
".change", and "..preamble -> ..meta" is missing although preamble and
metadata are both optional subsections of a change.
"""

IDS = ['diffx', '.preamble', '.meta', '.change', '..preamble', '..meta', '..file', '...meta', '...diff']
NAMES = ['diffx', 'preamble', 'meta', 'change', 'file', 'diff']

REF_HIER = {
    'diffx': ['.preamble', '.meta', '.change'],
    '.preamble': ['.meta', '.change'],
    '.meta': ['.change'],
    '.change': ['..preamble', '..meta', '..file'],
    '..preamble': ['..meta', '..file'],
    '..meta': ['.change', '..file'],
    '..file': ['...meta'],
    '...meta': ['...diff', '..file', '.change'],
    '...diff': ['..file', '.change'],
}

CONTAINERS = ['diffx', '.change', '..file']
CONTENT = ['.preamble', '.meta', '..preamble', '..meta', '...meta', '...diff']

# container nesting level of the container a section belongs to
CONTAINER_LEVEL = {'diffx': 0, '.preamble': 0, '.meta': 0, '.change': 1, '..preamble': 1, '..meta': 1,
                   '..file': 2, '...meta': 2, '...diff': 2}


def may_follow(prev, nxt):
    if prev is None:
        return nxt == 'diffx'
    return nxt in REF_HIER.get(prev, ())


def all_ids_24():
    return ['.' * lvl + n for lvl in range(4) for n in NAMES]


def effective_encoding(chain, own, sid):
    """C04: own option if present, else nearest declaring ancestor; diff never
    inherits.  chain = declared encodings (or None) of main[, change[, file]]."""
    if own is not None:
        return own
    if sid == '...diff':
        return None
    for e in reversed(chain):
        if e is not None:
            return e
    return None
