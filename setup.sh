#!/bin/bash
# Build the overlay venv for the checks (offline; wheelhouse only). Idempotent.
set -e
cd "$(dirname "$0")"
V="$(pwd)/.venv"
if [ -x "$V/bin/python" ] && "$V/bin/python" -c 'import z3, jsonschema' 2>/dev/null; then
    exit 0
fi
rm -rf "$V"
/venv/bin/python -m venv "$V"
SP=$("$V/bin/python" -c 'import site; print(site.getsitepackages()[0])')
printf '/venv/lib/python3.12/site-packages\n' > "$SP/verif_overlay.pth"
PIP_NO_INDEX=1 "$V/bin/pip" install -q --no-index --find-links /opt/veriftools/wheels z3-solver jsonschema >/dev/null
# crosshair is optional (second opinion on str/int obligations); never fatal
PIP_NO_INDEX=1 "$V/bin/pip" install -q --no-index --find-links /opt/veriftools/wheels crosshair-tool >/dev/null 2>&1 || true
"$V/bin/python" -c 'import z3; print("z3", z3.get_version_string())'
